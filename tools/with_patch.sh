#!/bin/sh
# usage: tools/with_patch.sh <patch.diff> <command...>   -- apply a patch to /repo, run, always undo
P="$1"; shift
git -C /repo apply "$P" || { echo "patch does not apply"; exit 3; }
"$@"; rc=$?
git -C /repo checkout -- . ; git -C /repo status --short | grep -v '^??' && echo "WARNING: repo not clean"
exit $rc
