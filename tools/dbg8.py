import sys, time, json
sys.path.insert(0,'/verif')
from vf import common, engine_campaign as C, detsched
tasks=C.gen_tasks("mixed",200,1)
for m in (False,True):
  if m != (sys.argv[1]=="opcode"): continue
  t0=time.time(); st=0; pre=0
  for t in tasks:
    t["opcode"]=m
    o=C._dispatch(t); st+=o["rec"]["steps"]; pre+=o["rec"]["preemptions"]
  print(m, "per exec ms", (time.time()-t0)/len(tasks)*1000, "steps", st/len(tasks), "preempt", pre/len(tasks), "codes", detsched._Monitor.n_codes)
