import sys, time, json, faulthandler
sys.path.insert(0,'/verif')
faulthandler.dump_traceback_later(15, exit=True)
from vf import common
def f(x):
    if x%7==3: return {"_poisoned":True,"x":x}
    return {"x":x}
r=common.pmap(f, range(100), nproc=4)
print(len(r), r[3], r[99])
