import sys, time, random, json, collections, faulthandler
sys.path.insert(0,'/verif')
faulthandler.dump_traceback_later(int(sys.argv[3]) if len(sys.argv)>3 else 20, exit=True)
from vf import common, scen as S, engine_exec as E, tlc, engine_campaign as C
tasks=C.gen_tasks(sys.argv[1],int(sys.argv[2]),1)
for i,t in enumerate(tasks):
    print(i, t["strat"], t["opts"], flush=True)
    o=C._dispatch(t)
    print("  ->", o["rec"]["outcome"], o["rec"]["dead"] and o["rec"]["dead"][0], o["rec"].get("exc_type"), flush=True)
    if o.get("_poisoned"): print(json.dumps(o["rec"]["dead"])); break
