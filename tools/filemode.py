"""Ad-hoc: run file-mode caching histories and validate (not a registered check)."""
import sys, json, time
from vf import common
from vf.props import caching_common as CC
n = int(sys.argv[1]) if len(sys.argv) > 1 else 60
seed = int(sys.argv[2]) if len(sys.argv) > 2 else 0
tasks = CC.gen_tasks(n, seed, file_frac=1.0)
t0 = time.time()
outs = common.pmap(CC._exec, tasks)
print("exec", round(time.time() - t0, 1), "s")
traces = [o["trace"] for o in outs]
rej, states = CC.validate(traces)
print("rejected", len(rej), "of", len(traces), "unexpected", sum(1 for o in outs if o["info"]["unexpected"]))
for idx, cl in sorted(rej.items())[:5]:
    print(idx, cl[:6], json.dumps(tasks[idx].get("tzmix")), json.dumps(tasks[idx]["files"]))
    print(CC.classify(tasks[idx], traces[idx], cl))
for o in outs:
    if o["info"]["unexpected"]:
        print(o["info"]["unexpected"][:2]); break
