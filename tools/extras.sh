#!/bin/sh
# tools/extras.sh <what> [seed]  - specifications beyond the listed properties (see tools/extras.py)
cd "$(dirname "$0")/.." || exit 2
REPO="${VERIF_REPO:-/repo}"
exec env PYTHONPATH="$REPO/src:$(pwd)" PYTHONDONTWRITEBYTECODE=1 PYTHONHASHSEED=0 PYTHONPYCACHEPREFIX=/var/tmp/vf-pycache /venv/bin/python -B tools/extras.py "$@"
