import sys, time, json, faulthandler
sys.path.insert(0,'/verif')
faulthandler.enable(); faulthandler.dump_traceback_later(25, exit=True)
from vf import common, engine_campaign as C
tasks=C.gen_tasks(sys.argv[1],int(sys.argv[2]),1)
for i,t in enumerate(tasks):
    t["opcode"]=True
    print(i, flush=True)
    o=C._dispatch(t)
    if o.get("_poisoned"): print("poisoned", i, o["rec"]["dead"][0]); 
