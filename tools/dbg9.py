import sys, json
sys.path.insert(0,'/verif')
from vf import engine_campaign as C
t=json.loads(sys.argv[1])
o=C._dispatch(t); print(o["rec"]["outcome"], o["rec"].get("thread_exc"))
