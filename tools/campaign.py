import sys, time, random, json, collections
sys.path.insert(0,'/verif')
from vf import common, scen as S, engine_exec as E, tlc, engine_campaign as C
common.assert_repo_uberjob()
prof=sys.argv[1]; n=int(sys.argv[2]); seed=int(sys.argv[3]) if len(sys.argv)>3 else 1
tasks=C.gen_tasks(prof,n,seed,opcode_frac=0.0)
t0=time.time()
ft,fr,ftr=C.run_tasks(tasks)
print("exec",round(time.time()-t0,1),len(ft))
f,st=C.validate(ft,fr,ftr)
f+=C.value_findings(ft,fr)
print(st,"findings",len(f))
cnt=collections.Counter()
for x in f:
    for p,cl in x["by_prop"].items():
        for c in cl: cnt[(p,c)]+=1
for k,v in sorted(cnt.items()): print(k,v)
for x in f[:2]:
    print(json.dumps(C.witness(x))[:1200])
print(collections.Counter(r["outcome"] for r in fr), "nontrivial", sum(1 for r in fr if C.nontrivial(r)), "intr", collections.Counter(r.get("interrupts") for r in fr), "thread_exc", sum(1 for r in fr if r.get("thread_exc")))
