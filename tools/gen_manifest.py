"""Generate MANIFEST.json from the table below (kept in one place so it stays valid)."""
import json, os, sys

V = os.path.dirname(os.path.dirname(os.path.abspath(__file__)))
props = [json.loads(l) for l in open(os.path.join(V, "properties.jsonl"))]
ids = [p["id"] for p in props]

ENGINE_NOTE = ("Trusted: TLC; the deterministic scheduler's fidelity to CPython threading semantics (cooperative Lock/Thread; Condition, Event and "
               "queue.Queue are CPython's own code); the harness call functions and the harness-computed dependency relation. Exhaustive only for "
               "the small configurations listed in the evidence; executions are sampled schedules.")

CLAIMED = {
 "C01": dict(engine="engine", cat="model_checking", ref="6.C01",
   technique="TLC: Engine.tla refines RunAbs.tla (DepsFirst) exhaustively on small DAGs; trace validation of real uberjob.run executions under a deterministic scheduler against RunAbsTrace.tla",
   text="Engine.tla (one action per critical section of run_function_on_graph) is model-checked to refine RunAbs, whose Start action requires every ancestor to be ok, for all DAGs on 3-4 nodes, W<=3; thousands of real executions with preemption at every line/bytecode of the engine files are validated by TLC against the same RunAbs guards using the harness's own transitive dependency relation (through literals, parallel edges).",
   note=ENGINE_NOTE),
 "C04": dict(engine="engine", cat="model_checking", ref="6.C04",
   technique="TLC: Engine.tla (queue as a bag, begun counters) OnceOnly/AllProcessed + refinement of RunAbs; trace validation of real executions (start_once, ret_needed_all_ok, ret_nothing_unneeded)",
   text="Double enqueue / never enqueued are representable states of Engine.tla and excluded by TLC for all small configurations; real executions are monitored against RunAbs: every call starts at most once, and at Return exactly the harness-computed needed set ran.",
   note=ENGINE_NOTE),
 "C06": dict(engine="engine", cat="model_checking", ref="6.C06",
   technique="TLC: Engine.tla ReportedFailed + refinement of RunAbs Containment/Raise guards for all fail subsets; trace validation with exception-object identities",
   text="All subsets of failing nodes x max_errors x W on 3-node DAGs are model-checked; real executions with fresh exception objects of five types are validated: no start below a failed call, CallError.call failed in this run, __cause__ is the very object it raised, first failure when serial.",
   note=ENGINE_NOTE),
 "C07": dict(engine="engine", cat="model_checking", ref="6.C07",
   technique="TLC: Engine.tla deadlock freedom + <>Done under weak fairness incl. failing Thread.start; deterministic-scheduler deadlock detector and quiescence check on real executions; cyclic plans enumerated",
   text="Termination and clean-up (every thread exited, nothing running) are checked as liveness/invariants of Engine.tla with environment faults, and on real executions by a scheduler that detects 'no runnable thread' immediately and drives the process to quiescence after run returned; cyclic plans (seeded random ones and every back edge on every 3-node multigraph shape, with and without registry) must raise before any call or store event; no observer thread may survive a run that failed to start.",
   note=ENGINE_NOTE + " Liveness on the implementation is bounded by a step budget."),
 "C10": dict(engine="engine", cat="model_checking", ref="6.C10",
   technique="TLC: RunAbs.tla (retry, max_errors, late-start budget) and Engine.tla WorkersBound/FailBound; trace validation of real executions; rendezvous plans for achievable parallelism",
   text="Bounds on in-flight calls, failures (k+W; exact when serial), attempts per call and retry semantics are invariants of RunAbs (model-checked with Attempts up to 3) that real executions are monitored against; the ability to reach W-fold parallelism is checked with rendezvous plans whose deadlock the scheduler detects (worker counts up to 40-64, beyond the default pool cap); on the registry path store reads / writes / modified-time queries are made flaky and lingering and the harness accounts what is in flight against max_workers / stale_check_max_workers, attempts against retry, eventual success and the identity of the reported exception.",
   note=ENGINE_NOTE),
 "C17": dict(engine="engine", cat="model_checking", ref="6.C17",
   technique="TLC: Engine.tla with KeyboardInterrupt at every coordinator label while starting workers / in queue.join(); scheduler-injected KeyboardInterrupt in real executions validated against RunAbs (late-start budget, KbInt guards)",
   text="The interrupt is an environment action of Engine.tla (also inside Thread.start); refinement of RunAbs's Interrupt/KbInt and termination are model-checked; in real executions the scheduler raises KeyboardInterrupt in the calling thread during the k-th call and the trace monitor checks the late-start budget, completion of in-flight calls, thread exit and propagation. Only interrupts delivered while a call was executing count (the property's premise).",
   note=ENGINE_NOTE + " Real-signal delivery is not used. Reading of 'no further call is started': from the calling thread's first lock of the work queue after the interrupt (queue.put(DONE), after the stop flag is set), each worker that is neither executing a call nor blocked inside queue.get may start at most one more call; Thread.ident is None until start() returned or the thread ran, as in CPython."),
}

CACHING_NOTE = ("Trusted: TLC; the harness stores (in-memory, logical clock, contents are terms; in a tenth of the histories the library's own file stores with real "
                "modified times spaced 3 ms apart; in half of them instants written as naive-local / aware datetimes under ten process time zones) meeting the property's stated assumptions; the "
                "linearization of the event log (every effect and its record under one lock). Caching.tla is model-checked exhaustively only for "
                "the small scenarios and clock bound listed in the evidence; histories on the real library are seeded samples plus enumerated cuts.")
CLAIMED.update({
 "C03": dict(engine="caching", cat="model_checking", ref="6.C03",
   technique="TLC: Caching.tla invariant SameAsFromScratch over all histories of small scenarios; histories executed on the real library validated event by event by the trace monitor CachingTrace.tla (values are terms compared with from-scratch evaluation)",
   text="Caching.tla models the stale check, the physical-plan transformation and store effects over histories of runs, cut-short runs, source updates and deletions; TLC checks that every successful run ends with from-scratch output and store contents. Thousands of histories on the real uberjob.run (with Registry, all option combinations, injected faults) are replayed against the same specification by TLC, which evaluates the invariant in every recorded state.",
   note=CACHING_NOTE),
 "C05": dict(engine="caching", cat="model_checking", ref="6.C05",
   technique="TLC: StaleSet (transcription of the stale check) = OutOfDate (declarative) in every reachable store state; ExactlyStaleRebuilt / SecondRunNoOp invariants; trace validation of real histories (call/read/write in plan, once, consumed) and dry-run plan comparison",
   text="Two independent definitions of staleness are proved equal by TLC on all reachable store states of small scenarios; per-run counters of real executions are checked against the plan Caching.tla computes from the recorded store state: writes exactly for out-of-date stored values once, reads at most once and only if consumed, unstored calls only where needed, a repeated run is a no-op.",
   note=CACHING_NOTE),
 "C08": dict(engine="caching", cat="model_checking", ref="6.C08",
   technique="TLC: LooksFreshImpliesCorrect and CompletedWritesKept as state invariants of Caching.tla in every state incl. mid-run and after Abort; real runs cut at every operation index (before/after effect, exception / process death) validated by CachingTrace.tla",
   text="The C08 invariant is required in every state of Caching.tla - in the middle of runs and after a cut at any point - and is evaluated by TLC in every recorded state of real histories in which runs are cut at the k-th call start, read, write (before and after taking effect) or modified-time query, as an exception and as 'dead after the cut'; the follow-up run is validated as in C03.",
   note=CACHING_NOTE + " File-backed part: a plan over the bundled file stores is run in a forked child that os._exit()s at the k-th file operation, for every k, from empty and from populated stores; the follow-up run must give from-scratch output and file contents (direct oracle, not a TLA+ trace)."),
 "C09": dict(engine="caching", cat="model_checking", ref="6.C09",
   technique="TLC: PlanOrderSufficient (the physical plan's order implies the directly stated write->read->use clauses) and DownstreamRebuilt; real runs with normalising stores validated by CachingTrace.tla (consumers receive read() values, ordering clauses per event)",
   text="The write -> read back -> use ordering is stated directly as guard clauses and shown by TLC to follow from the physical plan; on the real library, stores whose read returns a distinguishable wrapper make 'the consumer got the in-memory value' visible in the term every call returns, and the recorded event order is checked clause by clause.",
   note=CACHING_NOTE),
 "C13": dict(engine="caching", cat="model_checking", ref="6.C13",
   technique="Frame condition of Caching.tla checked on real histories (structural digests of the caller's Plan/Registry before/after every run, dry run, render as events of the validated traces); PlanApi.tla behaviours generated by TLC replayed step by step into the real construction API; concurrent runs under the deterministic scheduler",
   text="Every history step executed for the caching family (success, failure in stale check or run, cut, dry run, render with level/registry) records an identity-preserving structural digest of the caller's Plan and Registry before and after; the monitor clause c13_plan_and_registry_unchanged must hold for each. Additionally: several threads run one plan concurrently under the deterministic scheduler (values and plan unchanged), Plan.copy / Registry.copy independence under random mutation sequences, a Registry shared by two plans, scope-lock independence of copies, and a specification-to-implementation replay: TLC-generated behaviours of PlanApi.tla (the construction API as a state machine with the frame condition 'an action on one plan/registry leaves all others unchanged') are performed step by step on real Plan / Registry objects and the projected state compared after every step.",
   note=CACHING_NOTE + " The digest covers node identities, scopes, fn/value identities, stack frames, the edge multiset with keys, graph/node attribute dicts and registry entries."),
 "C14": dict(engine="caching", cat="translation_validation", ref="6.C14",
   technique="Translation validation: the physical plan returned by dry_run=True is projected to its executable operations and ancestor sets and compared by TLC with PlanOps/ExecAnc of Caching.tla; executing the returned plan alone is validated as a legal run from the same store state",
   text="For each (scenario, store state, fresh_time, output) reached by histories, the dry run may only query modified times (monitor clause), its returned plan must equal the plan the specification computes (operations and transitive order), and executing that plan without a registry must be accepted by the monitor as the real run from that state with the from-scratch output.",
   note=CACHING_NOTE),
})

FS_NOTE = ("Trusted: TLC; the interposition layer (builtins.open / io.open / os.replace / os.rename / os.remove / os.unlink wrapped by vf/fsx.py, including "
           "module globals of the library bound to them by name) sees every file operation of the stores; any other file next to the target is its staging file; rename atomicity and 'what has been flushed is on disk' (no power-loss semantics); process death is simulated from "
           "the on-disk state before each operation.")
CLAIMED.update({
 "C11": dict(engine="filestore", cat="fault_enumeration", ref="6.C11",
   technique="TLC: FileStore.tla (staged write protocol, a failure or process death at every file operation, consecutive writers) checked exhaustively; fault enumeration on the real stores with every file operation interposed, each operation trace validated by FileStoreTrace.tla which also compares the on-disk state with the protocol state",
   text="For each of the five stores and the staged_write / staged_write_path helpers, str and pathlib paths, small and large values: an OSError and a KeyboardInterrupt are injected at every file operation of a write, process death is simulated before every operation, a value whose serialisation fails part-way is written; after each, the target must be the complete old or new value, its modified time moved only with the new value, no staging file after an exception, and a further write and read must work. Enumeration is complete for writes of up to 40 file operations and sampled (first/last 6 + 12 seeded) beyond.",
   note=FS_NOTE),
 "C12": dict(engine="filestore", cat="exploration", ref="6.C12",
   technique="Register view of FileStore.tla (read returns the last complete write; modified time None iff absent, monotone) validated by TLC on recorded write/mtime/read/delete sequences of the real stores over explicit and seeded value domains, compared strictly (equal and same type at every level)",
   text="The TLA+ specification contributes the register / modified-time state machine; breadth over the value domain (every line terminator and control-character class, BMP/astral code points, lone surrogates in JSON, empty and large values, nested JSON, picklable objects, all byte values; encodings None/utf-8/utf-16/utf-32/latin-1; str and pathlib paths; directly and through a MountedStore) comes from an explicit alphabet plus a seeded generator. MountedStores are additionally written and read back concurrently by uberjob's worker threads under the deterministic scheduler. Encode/decode fidelity over an unbounded domain is not something a model decides, hence 'exploration'.",
   note=FS_NOTE + " Value domains are finite samples."),
})

PROG_NOTE = ("Trusted: TLC; the recording observer (notifications appended under one lock); for C20 the replacement of the observers' clock by the model "
             "clock and, in the threaded part, the deterministic scheduler's cooperative threading layer; the final-counts oracle reads the displays' output with a parser that is "
             "calibrated on a trivial sequence first and is not applied to an observer whose format it does not recognise (recorded as 'degraded' in the evidence). Sequences are sampled by TLC simulation, not exhaustive.")
CLAIMED.update({
 "C15": dict(engine="progress", cat="model_checking", ref="6.C15",
   technique="TLC: Progress.tla (notification protocol) model-checked; ProgressTrace.tla validates the notification sequences recording observers (alone / inside composites) received from real runs - registry histories and engine executions under the deterministic scheduler - joined with the calls that executed",
   text="The protocol (enter first, exit once and last on every outcome, totals before running, every running followed by exactly one completed/failed, nothing running at exit when calls end normally or with an Exception, completed = total after success, per-scope run totals = executed calls, stale totals = calls examined, composite members identical) is a TLA+ specification; thousands of real runs (all failure patterns, cuts, dry runs, schedules, max_errors, retry, exception types incl. uberjob's own CallError/NodeError, transformations returning a different plan) are validated against it by TLC; composites with a member that cannot be entered must exit every entered member exactly once.",
   note=PROG_NOTE),
 "C20": dict(engine="progress", cat="model_checking", ref="6.C20",
   technique="Progress.tla as a generator: TLC simulation emits legal notification sequences with ticks and render points anywhere; each is replayed into the real Console/HTML/IPython observers (model clock) over families of scope tuples, and into all three with their real update thread under the deterministic scheduler (random schedules and bounded-preemption enumeration) through the public interface only",
   text="Spec-to-implementation replay: every generated sequence x scope family (ints, strings, mixed types, different lengths, unorderable same-type values, classes, None, tuples, frozensets) must render without raising (also inside the update thread), the last rendering mentioning a scope must show its final counts, and the attributed elapsed time must add up to the model's busy time; the threaded part explores interleavings of notifications with rendering/emission.",
   note=PROG_NOTE),
})

CLAIMED.update({
 "C02": dict(engine="expr", cat="model_checking", ref="6.C02",
   technique="TLC: Expr.tla (gather / evaluation over a term grammar) model-checked against plain substitution; ExprTrace.tla compares what real programs built from terms returned (shape, exact types, identity of node-free parts, argument binding, keyword order, unpack) with Exp(term); schedule independence via executions under the deterministic scheduler",
   text="The specification is the reference interpreter: which containers are rebuilt, which objects are passed through untouched, dict collision and set collapse rules. The complete family of small terms plus seeded deeper ones, argument lists and unpack lengths are run on the real library (several worker counts, both schedulers) and judged by TLC; fault-free executions under the deterministic scheduler (incl. bounded-preemption enumeration around joins) must return the value of direct evaluation.",
   note="Trusted: TLC; sentinel objects stand for arbitrary values (the value domain of user functions is outside a TLA+ model); the deterministic scheduler for the schedule part. Bounded by term depth/width."),
 "C16": dict(engine="engine", cat="model_checking", ref="6.C16",
   technique="TLC: Physical.tla (result slots, BoundCalls, what uberjob can still reach) checked for all consumer relations on 4 calls; PhysicalTrace.tla validates weak-reference liveness snapshots (after gc) taken at every call boundary and 'completed' notification of real executions under the deterministic scheduler",
   text="ReleasedAfterLastConsumer is an invariant of the slot/BoundCall model; on the real engine, results are fresh weak-referenceable objects and the set still alive is logged at every call start, call end and completion notification, for random plans, outputs, worker counts, schedulers and schedules; TLC requires every live result to be the output, a result of a call not yet wound up, or consumed by an unfinished call.",
   note="Trusted: TLC; gc.collect() + weak references as the liveness observation; the deterministic scheduler. Fault-free runs and runs that go on after failing calls (error budget); the arguments of the one call whose failure run reports are exempt (the reported exception's traceback holds that call's frame)."),
 "C18": dict(engine="timenorm", cat="model_checking", ref="6.C18",
   technique="TLC: TimeNorm.tla decision table (zones with a DST fall-back, instants on a grid, naive-local / aware representations) checked exhaustively; the same table executed on the real stale check in processes under 5 TZ settings (incl. real files with os.utime), validated by TimeNormTrace.tla which resolves what the datetime objects carried to instants",
   text="DecisionDependsOnInstantsOnly holds for the repaired normalisation on the whole table and is refuted by TLC for the pre-fix one (non-vacuity); every pair of instants around each zone's fall-back x every pair of representations x {upstream time, fresh_time} is run through uberjob.run and judged by TLC on instants.",
   note="Trusted: TLC; zoneinfo's description of the zones; TZ + time.tzset() switching the process zone. Pairs of times only (the decision is a disjunction)."),
 "C19": dict(engine="attribution", cat="model_checking", ref="6.C19",
   technique="TLC: Attribution.tla (capture depth, truncation, inheritance of the creating operation's stack, rendering order) - a finite table enumerated completely; each row is a generated script run in a fresh interpreter whose report is validated by AttributionTrace.tla",
   text="Every combination of creating operation, failing physical call (user call, implicit/explicit gather, unpack, store write, read-back, source read, modified-time query, output gather), stack depth 1..6/8 and helper reuse is executed; the expected frames are read from the interpreter on the creating line itself; CallError.call, the frame chain, the truncation marker and the rendered order must match the table.",
   note="Trusted: TLC; sys._getframe as the ground truth for the user's stack; MAX_TRACEBACK_DEPTH = 3 is a constant of the specification."),
})

checks = []
for i in ids:
    if i not in CLAIMED:
        continue
    c = CLAIMED[i]
    checks.append({
        "property_id": i,
        "quick_cmd": f"./check {i} --tier quick",
        "thorough_cmd": f"./check {i} --tier thorough",
        "evidence_file": f"/verif/evidence/{i}.json",
        "replay_cmd_template": f"./check {i} --replay {{path}}",
        "engine": c["engine"],
        "level_claimed": {"category": c["cat"], "text": c["text"], "design_ref": c["ref"]},
        "level_note": c["note"],
        "technique": c["technique"],
    })
na = [{"property_id": i, "reason": "check under construction in this round (planned, see DESIGN.md section 6); not yet claimed"} for i in ids if i not in CLAIMED]
m = {
    "version": 1,
    "setup_cmd": "./setup.sh",
    "hooks": {
        "guard": "UBERJOB_VERIF",
        "enable": "no source hooks are used: checks run the unmodified working tree with PYTHONPATH=/repo/src (the ./check wrapper sets it) and observe from outside (substituted threading layer, plan call functions, harness stores, recording observers)",
        "baseline_off_cmd": "cd /repo && PYTHONPATH=/repo/src /venv/bin/python -m pytest -q -p no:cacheprovider --timeout=900",
        "source_commits": [],
        "add_only": True,
    },
    "engines": [
        {"name": "engine", "path": "/verif/spec/Engine.tla", "serves_properties": ["C01", "C04", "C06", "C07", "C10", "C16", "C17"],
         "kind_free_text": "TLA+ Engine.tla refining RunAbs.tla, checked by TLC; RunAbsTrace.tla monitor over executions of the real code under vf/detsched.py"},
        {"name": "filestore", "path": "/verif/spec/FileStore.tla", "serves_properties": ["C11", "C12"],
         "kind_free_text": "TLA+ FileStore.tla (staged write protocol + register) checked by TLC; FileStoreTrace.tla monitor over interposed file-operation traces of the real stores with injected faults"},
        {"name": "expr", "path": "/verif/spec/Expr.tla", "serves_properties": ["C02"], "kind_free_text": "TLA+ Expr.tla (gather/evaluation reference semantics) + ExprTrace.tla monitor over programs built from terms"},
        {"name": "timenorm", "path": "/verif/spec/TimeNorm.tla", "serves_properties": ["C18"], "kind_free_text": "TLA+ TimeNorm.tla decision table + TimeNormTrace.tla over decisions of the real stale check under several TZ"},
        {"name": "attribution", "path": "/verif/spec/Attribution.tla", "serves_properties": ["C19"], "kind_free_text": "TLA+ Attribution.tla table + AttributionTrace.tla over reports of generated scripts"},
        {"name": "progress", "path": "/verif/spec/Progress.tla", "serves_properties": ["C15", "C20"],
         "kind_free_text": "TLA+ Progress.tla: monitor (ProgressTrace.tla) for recorded notifications, generator (ProgressGen.tla, TLC simulation) of sequences replayed into the bundled observers"},
        {"name": "caching", "path": "/verif/spec/Caching.tla", "serves_properties": ["C03", "C05", "C08", "C09", "C13", "C14"],
         "kind_free_text": "TLA+ Caching.tla (stale check, physical plan, store histories) checked by TLC; CachingTrace.tla monitor over histories executed on the real library with term-valued harness stores"},
    ],
    "checks": checks,
    "not_applicable": na,
    "notes": "Violations are reported only for observable breaches with a replay file under /verif/replays; known_findings.json lists recorded/fixed defects.",
}
json.dump(m, open(os.path.join(V, "MANIFEST.json"), "w"), indent=1)
print("claimed", [c["property_id"] for c in checks], "na", len(na))
