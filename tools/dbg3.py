import sys, time, json
sys.path.insert(0,'/verif')
import faulthandler, signal; faulthandler.register(signal.SIGUSR1, all_threads=True)
from vf import common, engine_campaign as C
tasks=C.gen_tasks(sys.argv[1],int(sys.argv[2]),1)
outs=common.pmap(C._dispatch,tasks,nproc=4)
for t,o in zip(tasks,outs):
    if o["rec"].get("thread_exc"):
        print(json.dumps(t)); print(o["rec"]["thread_exc"][0]); print(o["rec"]["outcome"], o["rec"]["dead"]); break
print("done")
