import sys, time, json
sys.path.insert(0,'/verif')
from vf import common, engine_campaign as C
tasks=C.gen_tasks(sys.argv[1],int(sys.argv[2]),int(sys.argv[4]) if len(sys.argv)>4 else 1)
mode=sys.argv[3]
for t in tasks:
    if mode=="line": t["opcode"]=False
    if mode=="opcode": t["opcode"]=True
try:
    outs=common.pmap(C._dispatch,tasks,nproc=8)
    print("ok", len(outs), sum(1 for o in outs if o.get("_poisoned")))
except Exception as e:
    print("ERR", e)
