import sys, time, random, json, collections, faulthandler, threading
sys.path.insert(0,'/verif')
faulthandler.dump_traceback_later(50, exit=True)
from vf import common, scen as S, engine_exec as E, tlc, engine_campaign as C
tasks=C.gen_tasks(sys.argv[1],int(sys.argv[2]),1)
bad=[]
threading.excepthook=lambda a: bad.append((a.exc_type, a.exc_value))
import subprocess
for i,t in enumerate(tasks):
    o=C._dispatch(t)
    if bad:
        print(i, json.dumps(t)); print(bad); print(o["rec"]["outcome"], o["rec"]["dead"]); 
        print([e for e in o["rec"]["events"]][-12:])
        break
    if o.get("_poisoned"):
        print("poisoned at", i, "- restarting not supported; stop"); break
