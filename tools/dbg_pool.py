import sys, time, faulthandler
sys.path.insert(0,'/verif')
faulthandler.dump_traceback_later(40, exit=True)
from vf import common, engine_campaign as C
tasks=C.gen_tasks(sys.argv[1],int(sys.argv[2]),1)
t0=time.time()
ft,fr,ftr=C.run_tasks(tasks)
print("exec",time.time()-t0,len(ft), sum(1 for r in fr if r["dead"]))
