#!/usr/bin/env python3
"""Specifications beyond the twenty listed properties, bound to the code the same way (not registered
checks: nothing here can raise a VIOLATION for a listed property).

  tools/extras.py runargs [seed]     RunArgs.tla: argument validation of uberjob.run, refused before any effect
  tools/extras.py sources            Sources.tla: LiteralSource / ModifiedTimeSource / PathSource decision table
  tools/extras.py mounted [seed]     Mounted.tla: the copy protocol of MountedStore with failing steps and several threads
Run with PYTHONPATH=<repo>/src:/verif (tools/extras.sh does that)."""
import contextlib
import datetime as dt
import io
import itertools
import json
import random
import sys
import threading

from vf import common, cscen, tlc

TABLE = {
    "plan": {"ok": "ok", "graph": "TypeError", "none": "TypeError"},
    "registry": {"none": "ok", "ok": "ok", "empty": "ok", "dict": "TypeError"},
    "dry_run": {"false": "ok", "true": "ok", "one": "TypeError", "none": "TypeError"},
    "fresh_time": {"none": "ok", "naive": "ok", "aware": "ok", "date": "TypeError", "str": "TypeError"},
    "transform_physical": {"none": "ok", "fn": "ok", "str": "TypeError"},
    "scheduler": {"none": "ok", "default": "ok", "random": "ok", "int": "TypeError", "other": "ValueError", "upper": "ValueError"},
    "max_workers": {"none": "ok", "one": "ok", "three": "ok", "true": "ok", "str": "TypeError", "float": "TypeError", "zero": "ValueError", "neg": "ValueError"},
    "stale_check_max_workers": {"none": "ok", "two": "ok", "str": "TypeError", "zero": "ValueError"},
    "max_errors": {"none": "ok", "zero": "ok", "two": "ok", "str": "TypeError", "neg": "ValueError"},
    "retry": {"none": "ok", "one": "ok", "three": "ok", "decorator": "ok", "zero": "ValueError", "neg": "ValueError", "str": "TypeError", "float": "TypeError"},
    "progress": {"none": "ok", "false": "ok", "true": "ok", "obj": "ok", "list": "ok", "emptylist": "ok", "int": "TypeError"},
}
DEFAULT = {"plan": "ok", "registry": "ok", "dry_run": "false", "fresh_time": "none", "transform_physical": "none", "scheduler": "none",
           "max_workers": "one", "stale_check_max_workers": "none", "max_errors": "zero", "retry": "none", "progress": "obj"}


def run_case(case):
    import uberjob
    from uberjob.progress import Progress, ProgressObserver

    effects = set()
    lock = threading.Lock()

    class Store(uberjob.ValueStore):
        def __init__(self, v=None):
            self.v, self.t = v, (dt.datetime(2001, 1, 1) if v is not None else None)

        def read(self):
            with lock:
                effects.add("read")
            return self.v

        def write(self, v):
            with lock:
                effects.add("write")
            self.v, self.t = v, dt.datetime(2002, 1, 1)

        def get_modified_time(self):
            with lock:
                effects.add("mtime")
            return self.t

    class Obs(ProgressObserver):
        def __enter__(self):
            effects.add("entered")

        def __exit__(self, *a):
            pass

        def increment_total(self, **k):
            pass

        def increment_running(self, **k):
            pass

        def increment_completed(self, **k):
            pass

        def increment_failed(self, **k):
            pass

    def f(x):
        with lock:
            effects.add("call")
        return x + 1

    plan = uberjob.Plan()
    reg = uberjob.Registry()
    if case["registry"] in ("ok", "dict"):
        src = reg.source(plan, Store(1))
        y = plan.call(f, src)
        reg.add(y, Store())
    else:
        # (a plan with a registry.source cannot run without that registry)
        y = plan.call(f, plan.lit(1))
    z = plan.call(f, y)
    d0 = (cscen.plan_digest(plan), cscen.registry_digest(reg))
    obj = Progress(Obs)
    V = {
        "plan": {"ok": plan, "graph": plan.graph, "none": None},
        "registry": {"none": None, "ok": reg, "empty": uberjob.Registry(), "dict": {}},
        "dry_run": {"false": False, "true": True, "one": 1, "none": None},
        "fresh_time": {"none": None, "naive": dt.datetime(1999, 1, 1), "aware": dt.datetime(1999, 1, 1, tzinfo=dt.timezone.utc), "date": dt.date(1999, 1, 1), "str": "1999-01-01"},
        "transform_physical": {"none": None, "fn": (lambda p, n: (p, n)), "str": "identity"},
        "scheduler": {"none": None, "default": "default", "random": "random", "int": 3, "other": "fifo", "upper": "DEFAULT"},
        "max_workers": {"none": None, "one": 1, "three": 3, "true": True, "str": "2", "float": 2.0, "zero": 0, "neg": -1},
        "stale_check_max_workers": {"none": None, "two": 2, "str": "2", "zero": 0},
        "max_errors": {"none": None, "zero": 0, "two": 2, "str": "1", "neg": -1},
        "retry": {"none": None, "one": 1, "three": 3, "decorator": (lambda fn: fn), "zero": 0, "neg": -2, "str": "3", "float": 2.5},
        "progress": {"none": None, "false": False, "true": True, "obj": obj, "list": [obj], "emptylist": [], "int": 5},
    }
    kw = {p: V[p][c] for p, c in case.items() if p != "plan"}
    out = io.StringIO()
    try:
        with contextlib.redirect_stdout(out):
            uberjob.run(V["plan"][case["plan"]], output=z, **kw)
        outcome = "ok"
    except (TypeError, ValueError) as e:
        outcome = type(e).__name__
    except BaseException as e:  # noqa
        outcome = "other:" + type(e).__name__
    d1 = (cscen.plan_digest(plan), cscen.registry_digest(reg))
    if d1[0] != d0[0]:
        effects.add("plan_changed")
    if d1[1] != d0[1]:
        effects.add("registry_changed")
    acceptable = all(TABLE[p][c] == "ok" for p, c in case.items())
    return {"args": case, "outcome": outcome, "effects": sorted(effects) if not acceptable else []}


def cases(seed, nrandom=1500):
    out = [dict(DEFAULT)]
    for p, cl in TABLE.items():
        for c in cl:
            out.append(dict(DEFAULT, **{p: c}))
    bad = [(p, c) for p, cl in TABLE.items() for c, k in cl.items() if k != "ok"]
    for (p1, c1), (p2, c2) in itertools.combinations(bad, 2):
        if p1 != p2:
            out.append(dict(DEFAULT, **{p1: c1, p2: c2}))
    rng = random.Random(f"runargs-{seed}")
    for _ in range(nrandom):
        out.append({p: rng.choice(sorted(cl)) for p, cl in TABLE.items()})
    for _ in range(nrandom // 5):
        out.append({p: rng.choice(sorted(c for c, k in cl.items() if k == "ok")) for p, cl in TABLE.items()})
    return out


def runargs(seed):
    cs = cases(seed)
    evs = common.pmap(run_case, cs)
    per = 400
    rejected = []
    for i in range(0, len(evs), per):
        _acc, rej, _r = tlc.validate_traces("RunArgsTrace", "RunArgsTrace.cfg", [{"events": evs[i:i + per]}])
        for _tid, cl in rej.items():
            for l, c in cl:
                rejected.append((c, evs[i + l - 1]))
    # binding self-test: one recorded outcome changed must be rejected
    bogus = dict(evs[0], outcome="TypeError")
    _a, rej0, _r = tlc.validate_traces("RunArgsTrace", "RunArgsTrace.cfg", [{"events": [bogus]}])
    if not rej0:
        raise common.MachineryError("RunArgsTrace accepted a corrupted record")
    acc = sum(1 for e in evs if e["outcome"] == "ok")
    print(f"runargs: {len(evs)} calls of uberjob.run ({acc} accepted, {len(evs) - acc} refused), {len(rejected)} disagree with RunArgs.tla")
    for c, e in rejected[:10]:
        print("  ", c, json.dumps(e))
    return 1 if rejected else 0


# --------------------------------------------------------------------------------------
# Mounted.tla


def mounted_case(arg):
    """One history of up to 12 operations on one MountedStore subclass: writes / reads, some of them failing at the
    inner store or at the copy, executed by 1-3 threads; every step is logged with its effect under one lock."""
    seed, nthreads = arg
    import os
    import time

    from uberjob.stores import JsonFileStore, MountedStore

    rng = random.Random(f"mounted-{seed}")
    lock = threading.Lock()
    events = []
    dirs = {}
    tl = threading.local()

    def log(e, **kw):
        kw["e"] = e
        kw.setdefault("o", getattr(tl, "op", 0))
        for k, d in (("k", "none"), ("v", 0), ("dir", 0), ("raised", False), ("gone", True)):
            kw.setdefault(k, d)
        events.append(kw)

    class Boom(Exception):
        pass

    class Inner(JsonFileStore):
        def write(self, value):
            with lock:
                if getattr(tl, "fail", None) == "inner":
                    log("fail")
                    raise Boom("inner write")
            super().write(value)
            with lock:
                log("innerwrite", v=value["id"])

        def read(self):
            with lock:
                if getattr(tl, "fail", None) == "inner":
                    log("fail")
                    raise Boom("inner read")
            v = super().read()
            with lock:
                log("innerread", v=v["id"])
            return v

    class Remote(MountedStore):
        def __init__(self):
            super().__init__(self.make)
            self.blob = None

        def make(self, local_path):
            with lock:
                d = os.path.dirname(local_path)
                tl.dir = d
                log("begin", k=tl.kind, v=tl.val, dir=dirs.setdefault(d, len(dirs) + 1))
            return Inner(local_path)

        def copy_from_local(self, local_path):
            with lock:
                if getattr(tl, "fail", None) == "copy":
                    log("fail")
                    raise Boom("copy_from_local")
                with open(local_path, "rb") as f:
                    self.blob = f.read()
                log("publish", v=json.loads(self.blob)["id"])

        def copy_to_local(self, local_path):
            with lock:
                # (read: the scratch path is made before the inner store exists, so the operation begins here)
                d = os.path.dirname(local_path)
                tl.dir = d
                log("begin", k="read", v=0, dir=dirs.setdefault(d, len(dirs) + 1))
                tl.begun = True
                if getattr(tl, "fail", None) == "copy" or self.blob is None:
                    log("fail")
                    raise Boom("copy_to_local")
                with open(local_path, "wb") as f:
                    f.write(self.blob)
                log("fetch", v=json.loads(self.blob)["id"])

        def get_modified_time(self):
            return None

    store = Remote()
    orig_make = store.make

    def make(local_path):
        if getattr(tl, "begun", False):
            return Inner(local_path)  # read: begin was logged by copy_to_local
        return orig_make(local_path)

    store.create_store = make
    ops = []
    for o in range(1, rng.randint(3, 12) + 1):
        k = rng.choice(["write", "write", "read"])
        ops.append({"o": o, "kind": k, "val": o if k == "write" else 0, "fail": rng.choice([None, None, None, "inner", "copy"])})

    def worker(mine):
        for op in mine:
            tl.op, tl.kind, tl.val, tl.fail, tl.begun, tl.dir = op["o"], op["kind"], op["val"], op["fail"], False, None
            raised, ret = False, 0
            try:
                if op["kind"] == "write":
                    store.write({"id": op["val"], "pad": "x" * rng.randint(0, 2000)})
                else:
                    ret = store.read()["id"]
            except Boom:
                raised = True
            time.sleep(rng.choice([0, 0, 0.0005]))
            with lock:
                log("end", raised=raised, gone=(tl.dir is None or not os.path.exists(tl.dir)), v=ret)

    if nthreads == 1:
        worker(ops)
    else:
        parts = [ops[i::nthreads] for i in range(nthreads)]
        ths = [threading.Thread(target=worker, args=(p_,)) for p_ in parts]
        for t in ths:
            t.start()
        for t in ths:
            t.join()
    return {"events": events}


def mounted(seed):
    args = [(seed * 100000 + i, 1 + i % 3) for i in range(600)]
    traces = common.pmap(mounted_case, args)
    r = tlc.run_tlc("Mounted", "MC_Mounted.cfg", timeout=600, workers=4)
    if not r.ok:
        raise common.MachineryError(f"TLC did not verify Mounted.tla: {r.violated}")
    rejected = []
    for i in range(0, len(traces), 200):
        _acc, rej, _r = tlc.validate_traces("MountedTrace", "MountedTrace.cfg", traces[i:i + 200])
        for t, cl in rej.items():
            rejected.append((args[i + t - 1], cl[:4]))
    # binding self-test: a dropped publish event must be rejected
    t0 = next((t for t in traces if any(e["e"] == "publish" for e in t["events"])), None)
    if t0:
        cut = {"events": [e for e in t0["events"] if e["e"] != "publish"]}
        _a, rej0, _r = tlc.validate_traces("MountedTrace", "MountedTrace.cfg", [cut])
        if not rej0:
            raise common.MachineryError("MountedTrace accepted a trace without its publish events")
    print(f"mounted: Mounted.tla {r.distinct} distinct states; {len(traces)} histories ({sum(len(t['events']) for t in traces)} events) on a real MountedStore subclass, {len(rejected)} rejected")
    for a_, cl in rejected[:10]:
        print("  ", a_, cl)
    return 1 if rejected else 0


# --------------------------------------------------------------------------------------
# Sources.tla


def sources(seed):
    import os
    import pathlib

    from uberjob import stores as S

    evs = []
    with common.scratch("vf-sources-") as d:
        for pathkind in ("str", "pathlib"):
            for k in ("literal", "mtime", "path_required", "path_optional"):
                for s_ in ("set", "unset"):
                    t = dt.datetime(2020, 5, 17, 12, 0, 0)
                    marker = object()
                    p = os.path.join(d, f"{k}-{s_}-{pathkind}.dat")
                    if s_ == "set" and k.startswith("path"):
                        with open(p, "w") as f:
                            f.write("x")
                        os.utime(p, (t.timestamp(), t.timestamp()))
                    pp = pathlib.Path(p) if pathkind == "pathlib" else p
                    if k == "literal":
                        st = S.LiteralSource(marker, t if s_ == "set" else None)
                    elif k == "mtime":
                        st = S.ModifiedTimeSource(t if s_ == "set" else None)
                    else:
                        st = S.PathSource(pp, required=(k == "path_required"))
                    for op in ("read", "mtime", "write"):
                        try:
                            r = st.read() if op == "read" else st.get_modified_time() if op == "mtime" else st.write(1)
                            if r is None:
                                out = "none"
                            elif r is marker or r is pp:
                                out = "value"
                            elif isinstance(r, dt.datetime) and (r == t or r is t):
                                out = "time"
                            else:
                                out = "other:" + repr(r)[:60]
                        except NotImplementedError:
                            out = "NotImplementedError"
                        except OSError:
                            out = "OSError"
                        except BaseException as ex:  # noqa
                            out = "other:" + type(ex).__name__
                        evs.append({"k": k, "s": s_, "op": op, "outcome": out, "pathkind": pathkind})
    # a ModifiedTimeSource refuses anything but a datetime or None
    try:
        S.ModifiedTimeSource("2020-01-01")
        ctor = "accepted"
    except TypeError:
        ctor = "TypeError"
    _acc, rej, _r = tlc.validate_traces("SourcesTrace", "SourcesTrace.cfg", [{"events": evs}])
    bogus = [dict(evs[0], outcome="none")]
    _a, rej0, _r2 = tlc.validate_traces("SourcesTrace", "SourcesTrace.cfg", [{"events": bogus}])
    if not rej0:
        raise common.MachineryError("SourcesTrace accepted a corrupted record")
    bad = [(c, evs[l - 1]) for _t, cl in rej.items() for l, c in cl]
    print(f"sources: {len(evs)} (kind, state, operation, path form) cases on the real classes, {len(bad)} differ from Sources.tla; ModifiedTimeSource('2020-01-01') -> {ctor}")
    for c, e in bad[:10]:
        print("  ", c, e)
    return 1 if bad or ctor != "TypeError" else 0


if __name__ == "__main__":
    common.assert_repo_uberjob()
    what = sys.argv[1] if len(sys.argv) > 1 else "runargs"
    seed = int(sys.argv[2]) if len(sys.argv) > 2 else 0
    sys.exit({"runargs": runargs, "mounted": mounted, "sources": sources}[what](seed))
