#!/usr/bin/env python3
"""Seeded-change workflow (not a registered check).

  tools/mutants.py confirm <seeddir> <id>      confirm a candidate (suite passes with it, demo fails with / passes without),
                                              copy it to /verif/seeded/<id>/
  tools/mutants.py detect <id> <PROP> [...]    run ./check PROP --tier quick against a scratch worktree with the change
                                              applied; record the outcome in seeded/<id>/meta.json
Scratch worktrees live under /tmp/mw and are removed afterwards. /repo itself is never modified."""
import json
import os
import shutil
import subprocess
import sys
import time

VERIF = os.path.dirname(os.path.dirname(os.path.abspath(__file__)))
SEEDED = os.path.join(VERIF, "seeded")
PY = "/venv/bin/python"


def sh(cmd, cwd=None, env=None, timeout=3600):
    e = dict(os.environ)
    if env:
        e.update(env)
    p = subprocess.run(cmd, shell=True, cwd=cwd, env=e, capture_output=True, text=True, timeout=timeout)
    return p.returncode, p.stdout + p.stderr


def worktree(tag):
    d = f"/tmp/mw/{tag}"
    os.makedirs("/tmp/mw", exist_ok=True)
    sh(f"git -C /repo worktree remove --force {d}")
    shutil.rmtree(d, ignore_errors=True)
    rc, out = sh(f"git -C /repo worktree add --detach {d} HEAD")
    if rc:
        raise SystemExit(out)
    return d


def drop(d):
    sh(f"git -C /repo worktree remove --force {d}")
    shutil.rmtree(d, ignore_errors=True)
    sh("git -C /repo worktree prune")


def confirm(seeddir, mid):
    d = worktree(mid)
    try:
        env = {"PYTHONPATH": f"{d}/src", "PYTHONDONTWRITEBYTECODE": "1"}
        demo = os.path.join(seeddir, "demo.py")
        rc0, out0 = sh(f"{PY} -B {demo}", cwd=d, env=env, timeout=300)
        rc, out = sh(f"git apply {seeddir}/patch.diff", cwd=d)
        if rc:
            print("patch does not apply:", out)
            return 1
        rct, outt = sh(f"{PY} -B -m pytest -q -p no:cacheprovider --timeout=900 -x", cwd=d, env=env, timeout=1800)
        tail = outt.strip().splitlines()[-1] if outt.strip() else ""
        rc1, out1 = sh(f"{PY} -B {demo}", cwd=d, env=env, timeout=300)
        ok = rc0 == 0 and rct == 0 and rc1 != 0
        print(f"{mid}: demo clean rc={rc0}; suite with change rc={rct} ({tail}); demo with change rc={rc1} -> {'CONFIRMED' if ok else 'REJECTED'}")
        if not ok:
            print(out0[-500:], outt[-800:], out1[-500:])
            return 1
        dst = os.path.join(SEEDED, mid)
        os.makedirs(dst, exist_ok=True)
        shutil.copy(os.path.join(seeddir, "patch.diff"), dst)
        shutil.copy(demo, dst)
        meta = json.load(open(os.path.join(seeddir, "meta.json")))
        meta.update({"id": mid, "confirmed": {"suite_with_change": tail, "demo_clean_rc": rc0, "demo_with_change_rc": rc1,
                                               "demo_with_change_tail": out1.strip()[-400:],
                                               "ran": ["git apply patch.diff in a scratch worktree", "pytest (pinned suite)", "demo.py with and without the change"]},
                     "detected_by": meta.get("detected_by", {})})
        json.dump(meta, open(os.path.join(dst, "meta.json"), "w"), indent=1)
        return 0
    finally:
        drop(d)


def detect(mid, props, tier="quick"):
    dst = os.path.join(SEEDED, mid)
    meta = json.load(open(os.path.join(dst, "meta.json")))
    d = worktree(mid + "-det")
    try:
        rc, out = sh(f"git apply {dst}/patch.diff", cwd=d)
        if rc:
            print("patch does not apply:", out)
            return 1
        for p in props:
            ev = f"/tmp/mw/ev-{mid}"
            os.makedirs(ev, exist_ok=True)
            t0 = time.time()
            rc, out = sh(f"./check {p} --tier {tier}", cwd=VERIF,
                         env={"VERIF_REPO": d, "VERIF_EVIDENCE_DIR": ev, "VERIF_REPLAYS_DIR": ev}, timeout=7200)
            viol = [l for l in out.splitlines() if l.startswith("VIOLATION") or l.strip().startswith("violated:")]
            mach = [l for l in out.splitlines() if "MACHINERY-FAILURE" in l]
            verdict = "detected" if rc == 1 and viol else "machinery-failure" if rc == 2 else "missed"
            print(f"{mid} {p} {tier}: rc={rc} {verdict} ({time.time()-t0:.0f}s)")
            for l in (viol + mach)[:6]:
                print("    ", l[:300])
            if rc == 2:
                print(out[-1500:])
            meta.setdefault("detected_by", {})[f"{p}:{tier}"] = {"verdict": verdict, "rc": rc, "lines": [l[:300] for l in viol[:4]]}
            shutil.rmtree(ev, ignore_errors=True)
        json.dump(meta, open(os.path.join(dst, "meta.json"), "w"), indent=1)
    finally:
        drop(d)
    return 0


if __name__ == "__main__":
    if sys.argv[1] == "confirm":
        sys.exit(confirm(sys.argv[2], sys.argv[3]))
    if sys.argv[1] == "detect":
        tier = "quick"
        args = sys.argv[3:]
        if "--thorough" in args:
            args.remove("--thorough")
            tier = "thorough"
        sys.exit(detect(sys.argv[2], args, tier))
