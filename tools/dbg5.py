import sys, time, json, faulthandler
sys.path.insert(0,'/verif')
faulthandler.enable()
from vf import common, engine_campaign as C
tasks=C.gen_tasks(sys.argv[1],int(sys.argv[2]),1)
for i in [int(x) for x in sys.argv[3:]]:
    print(i, json.dumps(tasks[i])[:600], flush=True)
    o=C._dispatch(tasks[i]); print(o["rec"]["outcome"], o["rec"]["dead"], o["rec"].get("thread_exc"), flush=True)
