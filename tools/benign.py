#!/usr/bin/env python3
"""False-alarm workflow (not a registered check): run the quick checks against behaviour-preserving
changes of the library (selftest/benign/<id>/patch.diff, produced by sub-agents that were asked for
refactorings keeping all 20 properties). Every check must exit 0 on every one of them.

  tools/benign.py run <id> [PROP ...]      scratch worktree + patch, ./check PROP --tier quick for the given (default: all) properties
  tools/benign.py report                   summary of selftest/benign_report.json
Scratch worktrees live under /tmp/bw and are removed afterwards; /repo itself is never modified."""
import json
import os
import shutil
import subprocess
import sys
import time

VERIF = os.path.dirname(os.path.dirname(os.path.abspath(__file__)))
BENIGN = os.path.join(VERIF, "selftest", "benign")
REPORT = os.path.join(VERIF, "selftest", "benign_report.json")
ALL = [f"C{i:02d}" for i in range(1, 21)]


def sh(cmd, cwd=None, env=None, timeout=7200):
    e = dict(os.environ)
    if env:
        e.update(env)
    p = subprocess.run(cmd, shell=True, cwd=cwd, env=e, capture_output=True, text=True, timeout=timeout)
    return p.returncode, p.stdout + p.stderr


def run(bid, props):
    d = f"/tmp/bw/{bid}"
    os.makedirs("/tmp/bw", exist_ok=True)
    sh(f"git -C /repo worktree remove --force {d}")
    shutil.rmtree(d, ignore_errors=True)
    rc, out = sh(f"git -C /repo worktree add --detach {d} HEAD")
    if rc:
        raise SystemExit(out)
    ev = f"/tmp/bw/ev-{bid}"
    results = {}
    try:
        rc, out = sh(f"git apply {BENIGN}/{bid}/patch.diff", cwd=d)
        if rc:
            raise SystemExit(f"patch does not apply: {out}")
        rct, outt = sh("/venv/bin/python -B -m pytest -q -p no:cacheprovider --timeout=900 -x", cwd=d,
                       env={"PYTHONPATH": f"{d}/src", "PYTHONDONTWRITEBYTECODE": "1"}, timeout=1800)
        results["_suite"] = {"rc": rct, "tail": outt.strip().splitlines()[-1] if outt.strip() else ""}
        for p in props:
            t0 = time.time()
            shutil.rmtree(ev, ignore_errors=True)
            rc, out = sh(f"./check {p} --tier quick", cwd=VERIF,
                         env={"VERIF_REPO": d, "VERIF_EVIDENCE_DIR": ev, "VERIF_REPLAYS_DIR": ev})
            lines = [l.strip()[:400] for l in out.splitlines() if "VIOLATION" in l or "violated" in l or "MACHINERY" in l or "Error" in l][:6]
            results[p] = {"rc": rc, "wall_s": round(time.time() - t0), "lines": lines}
            print(f"{bid} {p}: rc={rc} ({results[p]['wall_s']}s) {lines[:2] if rc else ''}", flush=True)
    finally:
        sh(f"git -C /repo worktree remove --force {d}")
        shutil.rmtree(d, ignore_errors=True)
        shutil.rmtree(ev, ignore_errors=True)
        sh("git -C /repo worktree prune")
    # merge into the report (several runs may write concurrently: re-read under a lock file)
    import fcntl

    with open(REPORT + ".lock", "w") as lk:
        fcntl.flock(lk, fcntl.LOCK_EX)
        rep = json.load(open(REPORT)) if os.path.exists(REPORT) else {}
        cur = rep.setdefault(bid, {"summary": json.load(open(f"{BENIGN}/{bid}/meta.json")).get("summary", ""), "checks": {}})
        cur["checks"].update(results)
        with open(REPORT, "w") as f:
            json.dump(rep, f, indent=1, sort_keys=True)
    return 0


def report():
    rep = json.load(open(REPORT))
    for bid, r in sorted(rep.items()):
        bad = {p: c for p, c in r["checks"].items() if c["rc"] != 0}
        print(bid, "suite:", r["checks"].get("_suite", {}).get("tail", "?")[:40], "| checks run:", len(r["checks"]) - 1, "| non-zero:", {p: c["rc"] for p, c in bad.items()})
    return 0


if __name__ == "__main__":
    if sys.argv[1] == "run":
        sys.exit(run(sys.argv[2], sys.argv[3:] or ALL))
    sys.exit(report())
