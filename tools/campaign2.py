import sys, time, random, json, collections
sys.path.insert(0,'/verif')
from vf import common, scen as S, engine_exec as E, tlc, engine_campaign as C
prof=sys.argv[1]; n=int(sys.argv[2]); seed=int(sys.argv[3]); what=sys.argv[4]
tasks=C.gen_tasks(prof,n,seed,opcode_frac=0.0)
for t in tasks: t["keep_events"]=True
ft,fr,ftr=C.run_tasks(tasks)
f,st=C.validate(ft,fr,ftr)
k=0
if what=="thread_exc":
    for t,r in zip(ft,fr):
        if r.get("thread_exc"):
            print(json.dumps(t)); print(r["thread_exc"][0]); print(r["outcome"], r.get("exc_type"), r.get("exc_repr")); print([ (e["ev"],e.get("n"),e["th"]) for e in r["events"]]); k+=1
            if k>=2: break
else:
    for x in f:
        if any(what in c for p,cl in x["by_prop"].items() for c in cl):
            print(json.dumps(x["task"])); print(x["clauses"]); r=x["rec"]; print(r["outcome"], r.get("exc_type"), r.get("exc_repr"), r["alive_at_return"], r["leaked"], r["events_after_return"]); print([ (e["ev"],e.get("n"),e["th"],e.get("site")) for e in r["events"]]); k+=1
            if k>=2: break
