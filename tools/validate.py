import json, jsonschema, glob, sys
m=json.load(open('/verif/MANIFEST.json')); s=json.load(open('/root/.vp/MANIFEST.schema.json'))
jsonschema.validate(m,s); print("manifest valid")
es=json.load(open('/root/.vp/EVIDENCE.schema.json'))
for f in sorted(glob.glob('/verif/evidence/*.json')):
    jsonschema.validate(json.load(open(f)),es); print(f,"valid")
