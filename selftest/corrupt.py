"""Self-test of the binding (DESIGN 4.5): traces of real executions that the monitors accept are corrupted -
one event dropped, two adjacent events swapped, one logged field changed - and must then be rejected.
A monitor that accepted most corrupted traces would constrain nothing. usage: selftest/corrupt.py"""
import copy, json, os, random, sys

V = os.path.dirname(os.path.dirname(os.path.abspath(__file__)))
sys.path.insert(0, V)
from vf import common, tlc  # noqa: E402


def corruptions(tr, rng, key="events", fields=()):
    ev = tr[key]
    out = []
    if len(ev) >= 3:
        t = copy.deepcopy(tr); i = rng.randrange(1, len(ev) - 1); del t[key][i]; out.append(("drop", t))
        t = copy.deepcopy(tr); i = rng.randrange(0, len(ev) - 1)
        if t[key][i] != t[key][i + 1]:
            t[key][i], t[key][i + 1] = t[key][i + 1], t[key][i]; out.append(("swap", t))
    for f, mut in fields:
        idx = [i for i, e in enumerate(ev) if f in e and mut(e[f]) != e[f]]
        if idx:
            t = copy.deepcopy(tr); i = rng.choice(idx); t[key][i][f] = mut(t[key][i][f]); out.append((f"field:{f}", t))
    return out


def rate(module, cfg, traces, rng, fields, limit=150):
    cor = []
    for tr in traces[:limit]:
        cor += corruptions(tr, rng, fields=fields)
    if not cor:
        return None
    acc, rej, _ = tlc.validate_traces(module, cfg, [t for _k, t in cor])
    by = {}
    for i, (k, _t) in enumerate(cor, 1):
        a, b = by.get(k.split(":")[0] if not k.startswith("field") else k, (0, 0))
        by[k.split(":")[0] if not k.startswith("field") else k] = (a + (1 if i in rej else 0), b + 1)
    return {k: f"{a}/{b} rejected" for k, (a, b) in sorted(by.items())}


def main():
    common.assert_repo_uberjob()
    rng = random.Random(0)
    report = {}
    # engine: RunAbsTrace
    from vf import engine_campaign as EC
    ft, fr, ftr = EC.run_tasks(EC.gen_tasks("mixed", 150, 1, opcode_frac=0.0))
    acc, rej, _ = tlc.validate_traces("RunAbsTrace", "RunAbsTrace.cfg", ftr)
    good = [t for i, t in enumerate(ftr, 1) if i in acc]
    report["RunAbsTrace"] = rate("RunAbsTrace", "RunAbsTrace.cfg", good, rng, [("n", lambda n: n + 1 if n else n)])
    # caching: CachingTrace
    from vf import cexec as CE
    from vf.props import caching_common as CC
    outs = [CE.run_history(t) for t in CC.gen_tasks(80, 1)]
    ctr = [o["trace"] for o in outs]
    acc, rej, _ = tlc.validate_traces("CachingTrace", "CachingTrace.cfg", ctr)
    good = [t for i, t in enumerate(ctr, 1) if i in acc]
    report["CachingTrace"] = rate("CachingTrace", "CachingTrace.cfg", good, rng, [("n", lambda n: (1 if n > 1 else 2) if n else n), ("r", lambda r: r + 1 if r else r)], limit=60)
    # progress
    ptr = [p for o in outs for p in o["ptraces"]][:120]
    acc, rej, _ = tlc.validate_traces("ProgressTrace", "ProgressTrace.cfg", ptr)
    good = [t for i, t in enumerate(ptr, 1) if i in acc]
    report["ProgressTrace"] = rate("ProgressTrace", "ProgressTrace.cfg", good, rng, [("sc", lambda s: s + 1 if s else s)])
    # file stores
    from vf.props import fs_common as F
    o = F.run_case({"kind": "JsonFileStore", "pathkind": "str", "big": False})
    acc, rej, _ = tlc.validate_traces("FileStoreTrace", "FileStoreTrace.cfg", o["traces"])
    good = [t for i, t in enumerate(o["traces"], 1) if i in acc]
    report["FileStoreTrace"] = rate("FileStoreTrace", "FileStoreTrace.cfg", good, rng, [("role", lambda r: "target" if r == "staging" else r), ("t", lambda t: "other" if t in ("old", "new") else t)], limit=60)
    print(json.dumps(report, indent=1))
    with open(os.path.join(V, "selftest", "corrupt_report.json"), "w") as f:
        json.dump(report, f, indent=1)


if __name__ == "__main__":
    main()
