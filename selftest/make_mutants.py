"""Build the self-test mutants as patches against /repo's HEAD: each is (name, property expected
to catch it, file, old text, new text). Patches are produced with git diff and /repo is restored."""
import os, subprocess, sys

REPO = "/repo"
OUT = os.path.join(os.path.dirname(os.path.abspath(__file__)), "mutants")
RF = "src/uberjob/_execution/run_function_on_graph.py"
M = [
 ("m01_no_pred_lock", "C04", RF,
  """                    with remaining_pred_count_lock:
                        remaining_pred_count_mapping[successor] -= 1
                        if remaining_pred_count_mapping[successor] == 0:
                            queue.put(successor)""",
  """                    remaining_pred_count_mapping[successor] -= 1
                    if remaining_pred_count_mapping[successor] == 0:
                        queue.put(successor)"""),
 ("m02_edge_count", "C04", "src/uberjob/_util/networkx_util.py",
  "    return len(graph.pred[node])", "    return graph.in_degree(node)"),
 ("m03_successors_after_failure", "C06", RF, "        else:\n            for successor in graph.successors(node):", "        if True:\n            for successor in graph.successors(node):"),
 ("m04_catch_exception_only", "C07", RF, "        except BaseException as exception:", "        except Exception as exception:"),
 ("m05_stop_never_set", "C10", RF, "                if max_errors is not None and error_count > max_errors:", "                if max_errors is not None and error_count > max_errors + 3:"),
 ("m06_first_error_last", "C06", RF, "                if not first_node_error:\n", "                if True:\n"),
 ("m07_retry_one_more", "C10", "src/uberjob/_util/retry.py", "                    is_last_attempt = attempt_index == attempts - 1", "                    is_last_attempt = attempt_index >= attempts"),
 ("m08_retry_reraise_first", "C10", "src/uberjob/_util/retry.py",
  """                except exc_type:
                    is_last_attempt = attempt_index == attempts - 1
                    if is_last_attempt:
                        raise""",
  """                except exc_type as e:
                    first = first if attempt_index else e
                    is_last_attempt = attempt_index == attempts - 1
                    if is_last_attempt:
                        raise first"""),
 ("m09_no_prune", "C04", "src/uberjob/_transformations/pruning.py", "    plan.graph.remove_nodes_from(prune_nodes)", "    pass"),
 ("m10_shutdown_no_stop", "C17", RF, "        nonlocal stop\n        stop = True\n", "        nonlocal stop\n"),
 ("m11_put_before_decrement_check", "C01", RF,
  """                        if remaining_pred_count_mapping[successor] == 0:
                            queue.put(successor)""",
  """                        if remaining_pred_count_mapping[successor] <= 1:
                            queue.put(successor)"""),
 ("m12_serialize_calls", "C10", RF, "        try:\n            fn(node)\n", "        try:\n            with failure_lock:\n                fn(node)\n"),
 ("m13_lit_dependency_dropped", "C01", "src/uberjob/_transformations/pruning.py",
  "    if m * n > m + n:\n        return\n", "    if m * n > m + n:\n        return\n    if m > 1:\n        predecessors = predecessors[:1]\n"),
]


def main():
    os.makedirs(OUT, exist_ok=True)
    subprocess.check_call(["git", "-C", REPO, "diff", "--quiet"])
    for name, prop, f, old, new in M:
        p = os.path.join(REPO, f)
        s = open(p).read()
        if s.count(old) != 1:
            print("SKIP", name, "pattern count", s.count(old)); continue
        open(p, "w").write(s.replace(old, new))
        d = subprocess.check_output(["git", "-C", REPO, "diff"], text=True)
        subprocess.check_call(["git", "-C", REPO, "checkout", "--", "."])
        open(os.path.join(OUT, f"{name}.{prop}.diff"), "w").write(d)
        print("ok", name, prop)

main()
