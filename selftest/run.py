"""Self-test against code changes: every confirmed seeded change (seeded/<id>/patch.diff) and the hand-written
ones (selftest/mutants/<name>.<PROP>.diff) is applied in a scratch git worktree (never in /repo) and the quick
check of its property is run against it (VERIF_REPO). usage: selftest/run.py [name-substring ...]"""
import glob, json, os, shutil, subprocess, sys, time

V = os.path.dirname(os.path.dirname(os.path.abspath(__file__)))
args = sys.argv[1:]
rows = []
for p in sorted(glob.glob(os.path.join(V, "selftest/mutants/*.diff")) + glob.glob(os.path.join(V, "seeded/*/patch.diff"))):
    if "seeded/" in p:
        name = os.path.basename(os.path.dirname(p))
        prop = json.load(open(os.path.join(os.path.dirname(p), "meta.json")))["property"]
    else:
        name, prop, _ = os.path.basename(p).rsplit(".", 2)
    if args and not any(a in name or a == prop for a in args):
        continue
    d = f"/tmp/mw/self-{name}"
    subprocess.run(["git", "-C", "/repo", "worktree", "remove", "--force", d], capture_output=True)
    shutil.rmtree(d, ignore_errors=True)
    os.makedirs("/tmp/mw", exist_ok=True)
    subprocess.check_call(["git", "-C", "/repo", "worktree", "add", "--detach", d, "HEAD"], stdout=subprocess.DEVNULL, stderr=subprocess.DEVNULL)
    try:
        if subprocess.run(["git", "-C", d, "apply", p], capture_output=True).returncode:
            rows.append((name, prop, "does-not-apply", None))
            print(rows[-1], flush=True)
            continue
        ev = f"/tmp/mw/ev-self-{name}"
        os.makedirs(ev, exist_ok=True)
        t0 = time.time()
        r = subprocess.run([os.path.join(V, "check"), prop, "--tier", "quick"], capture_output=True, text=True, cwd=V,
                           env=dict(os.environ, VERIF_REPO=d, VERIF_EVIDENCE_DIR=ev, VERIF_REPLAYS_DIR=ev))
        viol = [l.strip()[:160] for l in r.stdout.splitlines() if l.strip().startswith("violated")]
        rows.append((name, prop, {0: "missed", 1: "caught", 2: "machinery"}.get(r.returncode, r.returncode), round(time.time() - t0), viol[:1]))
        print(rows[-1], flush=True)
        shutil.rmtree(ev, ignore_errors=True)
    finally:
        subprocess.run(["git", "-C", "/repo", "worktree", "remove", "--force", d], capture_output=True)
        shutil.rmtree(d, ignore_errors=True)
subprocess.run(["git", "-C", "/repo", "worktree", "prune"], capture_output=True)
print(f"caught {sum(1 for r in rows if r[2] == 'caught')}/{len(rows)}")
