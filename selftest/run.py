"""Self-test: apply each mutant to /repo, run the quick check of the property expected to catch
it (and optionally the repo's own tests), undo. usage: run.py [--tests] [name-substring ...]"""
import glob, os, subprocess, sys, time

V = os.path.dirname(os.path.dirname(os.path.abspath(__file__)))
args = [a for a in sys.argv[1:] if not a.startswith("--")]
with_tests = "--tests" in sys.argv
rows = []
for p in sorted(glob.glob(os.path.join(V, "selftest/mutants/*.diff")) + glob.glob(os.path.join(V, "seeded/*/patch.diff"))):
    base = os.path.basename(p)
    if "seeded/" in p:
        name = os.path.basename(os.path.dirname(p))
        import json
        prop = json.load(open(os.path.join(os.path.dirname(p), "meta.json")))["property"]
    else:
        name, prop, _ = base.rsplit(".", 2)
    if args and not any(a in name or a == prop for a in args):
        continue
    subprocess.check_call(["git", "-C", "/repo", "diff", "--quiet"])
    subprocess.check_call(["git", "-C", "/repo", "apply", p])
    try:
        tests = "-"
        if with_tests:
            r = subprocess.run("cd /repo && PYTHONPATH=/repo/src /venv/bin/python -m pytest -q -x -p no:cacheprovider --timeout=900 2>&1 | tail -1", shell=True, capture_output=True, text=True)
            tests = "pass" if " passed" in r.stdout and "failed" not in r.stdout else "FAIL"
        t0 = time.time()
        r = subprocess.run([os.path.join(V, "check"), prop, "--tier", "quick"], capture_output=True, text=True, cwd=V)
        viol = [l for l in r.stdout.splitlines() if l.startswith("VIOLATION") or l.startswith("  violated")]
        rows.append((name, prop, tests, r.returncode, round(time.time() - t0), viol[:2]))
        print(rows[-1], flush=True)
        if r.returncode == 2:
            print(r.stderr[-1500:])
    finally:
        subprocess.check_call(["git", "-C", "/repo", "checkout", "--", "."])
caught = sum(1 for r in rows if r[3] == 1)
print(f"caught {caught}/{len(rows)}")
