#!/bin/sh
# Offline sanity: tools present, every specification parses. Nothing is built: the checks read
# /repo/src at run time.
set -e
cd "$(dirname "$0")"
command -v java >/dev/null
test -f /opt/veriftools/tla/tla2tools.jar
test -x /venv/bin/python
mkdir -p /var/tmp evidence replays
for f in spec/*.tla; do
  ( cd spec && java -cp /opt/veriftools/tla/tla2tools.jar:/opt/veriftools/tla/CommunityModules-deps.jar tla2sany.SANY "$(basename "$f")" >/tmp/sany.$$ 2>&1 ) || { cat /tmp/sany.$$; rm -f /tmp/sany.$$; echo "SANY failed on $f"; exit 1; }
done
rm -f /tmp/sany.$$
PYTHONPATH=/repo/src:$(pwd) /venv/bin/python -B -c "import uberjob, vf.common as c; c.assert_repo_uberjob(); print('setup ok')"
