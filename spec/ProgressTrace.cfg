CONSTANTS
  Sections = {"stale", "run"}
  Scopes <- TraceScopes
  MaxTotal = 0
  MaxTicks = 0
  MaxRenders = 0
SPECIFICATION TSpec
POSTCONDITION Post
CHECK_DEADLOCK FALSE
