CONSTANTS
  Sections = {"stale", "run"}
  Scopes = {1, 2, 3}
  MaxTotal = 3
  MaxTicks = 5
  MaxRenders = 4
SPECIFICATION Spec
INVARIANT Emit
INVARIANT TypeOK
CHECK_DEADLOCK FALSE
