SPECIFICATION TSpec
POSTCONDITION Post
CHECK_DEADLOCK FALSE
