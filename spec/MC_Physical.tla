---------------------------- MODULE MC_Physical ----------------------------
EXTENDS Physical
\* every consumer relation on 4 calls that respects the numbering (c may only consume lower-numbered calls), every output set
MCPConfigs ==
  LET C == 1..4
      Pairs == {<<p, c>> \in C \X C : p < c}
  IN {[calls |-> C, cons |-> [p \in C |-> {c \in C : <<p, c>> \in E}], outs |-> O] : E \in SUBSET Pairs, O \in SUBSET C}
=============================================================================
