---------------------------- MODULE ProgressGen ----------------------------
(* Progress.tla as a generator: in simulation mode every behaviour that reaches Exit prints its
   notification sequence (with Tick and Render points) as one JSON line; vf/props/c20.py replays
   each into the real Console / HTML / IPython observers. *)
EXTENDS Progress, Json
Emit == exited => PrintT(ToJson(hist))
LenBound == Len(hist) <= 60
=============================================================================
