--------------------------- MODULE TimeNormTrace ---------------------------
(***************************************************************************)
(* Trace monitor for C18: decisions the real stale check took, for stores  *)
(* and fresh_time given as naive-local or aware datetimes in processes     *)
(* running under various TZ settings. Each event carries the zone as the   *)
(* harness read it from zoneinfo (one transition inside the window, the    *)
(* offsets before and after), the representations exactly as the datetime  *)
(* objects carried them (wall clock minutes, fold, utcoffset) and whether  *)
(* the stored value was rebuilt. TLC resolves the representations to       *)
(* instants with TimeNorm.tla and requires the decision to be the one on   *)
(* instants.                                                               *)
(***************************************************************************)
EXTENDS TimeNorm, Json, IOUtils, Sequences

Traces == ndJsonDeserialize(IOEnv.TRACE_FILE)
NoZones == {}
NoOffsets == {}

VARIABLES tid, l, bad
tvars == <<cvars, tid, l, bad>>
Ev == Traces[tid].events

ASSUME TLCSet(1, {})

TInit == /\ tid \in 1..Len(Traces) /\ l = 1 /\ bad = {}
         /\ cz = [t |-> 0, before |-> 0, after |-> 0] /\ io = 0 /\ ko = 0 /\ ix = 0 /\ kx = 0 /\ mode = "alone"

\* candidates on the trace's own grid (minutes): the harness gives the window bounds
CandsT(z, w, lo, hi) == {j \in lo..hi : j + Off(z, j) = w}
InstantOfT(z, r, lo, hi) ==
  IF r.kind = "aware" THEN r.wall - r.off
  ELSE LET C == CandsT(z, r.wall, lo, hi) IN
       IF C = {} THEN r.wall - z.after ELSE IF r.fold = 1 THEN MaxOf(C) ELSE MinOf(C)

TStep ==
  /\ l <= Len(Ev)
  /\ l' = l + 1 /\ UNCHANGED <<tid, cvars>>
  /\ LET e == Ev[l]
         z == Traces[tid].zone
         lo == Traces[tid].lo
         hi == Traces[tid].hi
         o == InstantOfT(z, e.own, lo, hi)
         expect == (e.up.kind # "none" /\ InstantOfT(z, e.up, lo, hi) > o) \/ (e.fr.kind # "none" /\ InstantOfT(z, e.fr, lo, hi) > o)
     IN bad' = IF e.rebuilt = expect THEN bad
               ELSE bad \cup {<<l, IF expect THEN "decision_depends_on_instants_only_kept_stale" ELSE "decision_depends_on_instants_only_rebuilt_fresh">>}

TDone ==
  /\ l = Len(Ev) + 1
  /\ IF bad = {} THEN TLCSet(1, TLCGet(1) \cup {tid})
                 ELSE \A b \in bad : PrintT(<<"REJ", tid, b[1], b[2]>>)
  /\ l' = l + 1
  /\ UNCHANGED <<cvars, tid, bad>>

TNext == TStep \/ TDone
TSpec == TInit /\ [][TNext]_tvars
Post == PrintT(<<"ACCEPTED", TLCGet(1)>>)
=============================================================================
