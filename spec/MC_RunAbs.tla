------------------------------ MODULE MC_RunAbs ------------------------------
(* Exhaustive configuration for RunAbs: every DAG on nodes 1..N (edges i -> j, i < j),
   every worker count 1..MaxW, every max_errors in MaxErrs, every subset of failing calls;
   with Attempts > 1 also every number of failing leading attempts. *)
EXTENDS RunAbs

CONSTANTS N, MaxW, MaxErrs, AttemptsSet

MaxErrsAll == {-1, 0, 1}
NodesN == 1..N
MaxOf(S) == CHOOSE x \in S : \A y \in S : y <= x
Outs == {NodesN, {}} \cup {{n} : n \in NodesN}
Pairs == {<<i, j>> \in NodesN \X NodesN : i < j}
RECURSIVE AncOf(_, _)
AncOf(E, c) == LET P == {e[1] : e \in {x \in E : x[2] = c}} IN P \cup UNION {AncOf(E, p) : p \in P}

MCConfigs ==
  {[calls |-> NodesN,
    anc |-> [c \in NodesN |-> AncOf(E, c)],
    W |-> w, maxerr |-> m, attempts |-> a,
    needed |-> UNION {AncOf(E, o) \cup {o} : o \in O},
    failn |-> f] :
      E \in SUBSET Pairs, w \in 1..MaxW, m \in MaxErrs, a \in AttemptsSet,
      O \in Outs, f \in [NodesN -> 0..MaxOf(AttemptsSet)]}
=============================================================================
