CONSTANTS
  Sections = {"stale", "run"}
  Scopes = {1, 2}
  MaxTotal = 2
  MaxTicks = 1
  MaxRenders = 1
SPECIFICATION Spec
VIEW View
INVARIANT TypeOK
INVARIANT NothingRunningAfterExit
INVARIANT BusyWithinNow
PROPERTY ExitedIsFinal
CHECK_DEADLOCK FALSE
