CONSTANTS
  N = 3
  MaxW = 2
  MaxErrs <- MaxErrsAll
  AttemptsSet = {1, 2}
  Configs <- MCConfigs
SPECIFICATION Spec
INVARIANT TypeOK
INVARIANT AttemptsBounded
INVARIANT ExactlyNeeded
INVARIANT Containment
INVARIANT RaiseNamesFailure
INVARIANT NoValueOnFailure
INVARIANT Quiescent
INVARIANT WorkersBound
INVARIANT FailBound
INVARIANT SerialFailCount
INVARIANT UnlimitedRunsAll
INVARIANT RetrySuccessCounts
INVARIANT InterruptPropagates
INVARIANT LateBounded
PROPERTY DepsFirst
PROPERTY AtMostOnce
PROPERTY Terminates
