--------------------------- MODULE RunArgsTrace ---------------------------
(***************************************************************************)
(* Monitor: each event is one real call of uberjob.run with one class per  *)
(* parameter, its outcome and the effects the harness observed.            *)
(***************************************************************************)
EXTENDS RunArgs, Sequences, Json, IOUtils

Traces == ndJsonDeserialize(IOEnv.TRACE_FILE)
VARIABLES tid, l, bad
tvars == <<a, tid, l, bad>>
Ev == Traces[tid].events
Range(s) == {s[i] : i \in DOMAIN s}

ASSUME TLCSet(1, {})

TInit == tid \in 1..Len(Traces) /\ l = 1 /\ bad = {} /\ a = [p \in Params |-> "none"]

TStep ==
  /\ l <= Len(Ev)
  /\ l' = l + 1 /\ UNCHANGED tid
  /\ LET e == Ev[l]
         c == [p \in Params |-> e.args[p]]
     IN /\ a' = c
        /\ bad' = bad \cup
             (IF ~WellFormed(c) THEN {<<l, "unknown_class">>}
              ELSE IF Acceptable(c)
                     THEN (IF e.outcome = "ok" THEN {} ELSE {<<l, "acceptable_arguments_refused">>})
                     ELSE (IF e.outcome \in BadKinds(c) THEN {} ELSE {<<l, "unacceptable_argument_not_refused_with_its_error">>})
                          \cup (IF Range(e.effects) = {} THEN {} ELSE {<<l, "effects_before_refusal">>}))

TDone ==
  /\ l = Len(Ev) + 1
  /\ IF bad = {} THEN TLCSet(1, TLCGet(1) \cup {tid})
                 ELSE \A b \in bad : PrintT(<<"REJ", tid, b[1], b[2]>>)
  /\ l' = l + 1 /\ UNCHANGED <<a, tid, bad>>

TNext == TStep \/ TDone
TSpec == TInit /\ [][TNext]_tvars
Post == PrintT(<<"ACCEPTED", TLCGet(1)>>)
=============================================================================
