--------------------------- MODULE PhysicalTrace ---------------------------
(***************************************************************************)
(* Trace monitor for C16: executions of the real engine (fault-free, or    *)
(* with failing calls and an error budget so that the run goes on) whose   *)
(* call functions return fresh weak-referenceable results; at every call   *)
(* boundary and at every 'completed' notification the harness logs, after  *)
(* a garbage collection, which results are still alive. Alive results must *)
(* be allowed to live by Physical.tla (MayLive).                           *)
(***************************************************************************)
EXTENDS Physical, Json, IOUtils

Traces == ndJsonDeserialize(IOEnv.TRACE_FILE)
NoConfigs == {}

VARIABLES tid, l, bad, thr    \* thr[c] : the thread that executed c (0 = none)
tvars == <<pcfg, physvars, tid, l, bad, thr>>
Ev == Traces[tid].events
Range(s) == {s[i] : i \in DOMAIN s}
\* results consumed by the call whose failure the run reports: the reported exception carries the
\* traceback of that call's function, whose frame holds its arguments - they live until run raises
Keep == Range(Traces[tid].keep)

ASSUME TLCSet(1, {})

CfgOf(r) == LET C == Range(r.calls) IN [calls |-> C, cons |-> [c \in C |-> Range(r.cons[c])], outs |-> Range(r.outs)]

TInit ==
  /\ tid \in 1..Len(Traces)
  /\ pcfg = CfgOf(Traces[tid])
  /\ PInitState
  /\ l = 1 /\ bad = {} /\ thr = [c \in Range(Traces[tid].calls) |-> 0]

\* calls whose function returned on thread t: that worker has moved on, so they are done
Settle(t, st0) == [c \in PCalls |-> IF st0[c] = "ended" /\ thr[c] = t THEN "done" ELSE st0[c]]

TStep ==
  /\ l <= Len(Ev)
  /\ l' = l + 1 /\ UNCHANGED <<tid, pcfg, bound, held>>
  /\ LET e == Ev[l] IN
     CASE e.e = "start" ->
            /\ pst' = [Settle(e.t, pst) EXCEPT ![e.n] = "run"]
            /\ thr' = [thr EXCEPT ![e.n] = e.t]
            /\ bad' = bad
       [] e.e = "end" ->
            /\ pst' = [pst EXCEPT ![e.n] = "ended"] /\ UNCHANGED thr /\ bad' = bad
       [] e.e = "completed" ->
            \* the engine reports a call of thread t completed: whatever that thread executed is finished
            /\ pst' = Settle(e.t, pst) /\ UNCHANGED thr /\ bad' = bad
       [] e.e = "returned" ->
            /\ pst' = [c \in PCalls |-> IF pst[c] = "ended" THEN "done" ELSE pst[c]] /\ UNCHANGED thr /\ bad' = bad
       [] e.e = "alive" ->
            \* results alive right now (after gc), seen from thread t; t's own finished calls are settled first
            /\ LET st1 == IF e.settle THEN Settle(e.t, pst) ELSE pst
                   \* a result may live while its own call has not been wound up (it is still in that call's frame /
                   \* the worker still holds the BoundCall whose result slot it is), while a consumer is unfinished, or as output
                   ok(n) == n \in Outs \/ n \in Keep \/ st1[n] \in {"run", "ended"} \/ \E c \in Cons(n) : st1[c] \in {"idle", "run", "ended"}
               IN /\ pst' = st1
                  /\ bad' = bad \cup {<<l, "released_after_last_consumer">> : n \in {m \in Range(e.ids) : m \in PCalls /\ ~ok(m)}}
            /\ UNCHANGED thr
       [] OTHER -> UNCHANGED <<pst, thr>> /\ bad' = bad \cup {<<l, "unknown_event">>}

TDone ==
  /\ l = Len(Ev) + 1
  /\ IF bad = {} THEN TLCSet(1, TLCGet(1) \cup {tid})
                 ELSE \A b \in bad : PrintT(<<"REJ", tid, b[1], b[2]>>)
  /\ l' = l + 1
  /\ UNCHANGED <<pcfg, physvars, tid, bad, thr>>

TNext == TStep \/ TDone
TSpec == TInit /\ [][TNext]_tvars
Post == PrintT(<<"ACCEPTED", TLCGet(1)>>)
=============================================================================
