CONSTANTS
  N = 3
  MaxW = 2
  EConfigs <- ConfigsFull
  AllowInterrupt = FALSE
  AllowInStartIntr = FALSE
  AllowSpawnFail = FALSE
  PoolMode = "legacy"
SPECIFICATION Spec
INVARIANT TypeOK
INVARIANT OnceOnly
INVARIANT DepsOk
INVARIANT UnfinishedAccounting
INVARIANT DecUnderLock
INVARIANT FailUnderLock
INVARIANT CleanAtEnd
INVARIANT JoinedAtEnd
INVARIANT ReportedFailed
INVARIANT WorkersBound
INVARIANT FailBound
INVARIANT AllProcessed
PROPERTY RefinesRunAbs
PROPERTY Terminates
