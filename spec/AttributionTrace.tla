-------------------------- MODULE AttributionTrace --------------------------
(* Observed attributions of real failing runs (vf/props/c19.py) against Attribution.tla. *)
EXTENDS Attribution, Json, IOUtils

Traces == ndJsonDeserialize(IOEnv.TRACE_FILE)
VARIABLES tid, l, bad
tvars == <<avars, tid, l, bad>>
Ev == Traces[tid].events
ASSUME TLCSet(1, {})

TInit == tid \in 1..Len(Traces) /\ l = 1 /\ bad = {} /\ op = "call" /\ failing = "user_call" /\ depth = 1

Clauses(e) == <<
  <<"known_operation", e.op \in Ops /\ (e.failing \in FailingOf(e.op) \/ [op |-> e.op, failing |-> e.failing] = MtimeOfStored)>>,
  <<"run_raised_call_error", e.raised>>,
  <<"call_error_names_the_failing_call", e.callok>>,
  <<"traceback_starts_at_user_line", Len(e.obs) >= 1 /\ e.obs[1] = 0>>,
  <<"traceback_follows_enclosing_frames", e.obs = Capture(e.n).frames>>,
  <<"truncated_exactly_beyond_limit", e.trunc = Capture(e.n).truncated>>,
  <<"rendered_outermost_first", e.rcheck => (e.rendered = Rendered(e.n) /\ e.rendered_trunc_first = Capture(e.n).truncated)>> >>

TStep ==
  /\ l <= Len(Ev) /\ l' = l + 1 /\ UNCHANGED <<tid, avars>>
  /\ LET gs == Clauses(Ev[l]) IN bad' = bad \cup {<<l, gs[i][1]>> : i \in {j \in DOMAIN gs : ~gs[j][2]}}
TDone ==
  /\ l = Len(Ev) + 1
  /\ IF bad = {} THEN TLCSet(1, TLCGet(1) \cup {tid}) ELSE \A b \in bad : PrintT(<<"REJ", tid, b[1], b[2]>>)
  /\ l' = l + 1 /\ UNCHANGED <<avars, tid, bad>>
TNext == TStep \/ TDone
TSpec == TInit /\ [][TNext]_tvars
Post == PrintT(<<"ACCEPTED", TLCGet(1)>>)
=============================================================================
