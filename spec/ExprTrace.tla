----------------------------- MODULE ExprTrace -----------------------------
(***************************************************************************)
(* Trace monitor for Expr.tla (C02): programs built from terms are run on  *)
(* the real library (as run(output=term), as arguments of a recording      *)
(* call, through unpack); what came back - shapes, exact container types,  *)
(* which supplied objects were passed through untouched, keyword order -   *)
(* is encoded by the harness and must equal Exp(term).                     *)
(***************************************************************************)
EXTENDS Expr, Json, IOUtils

Traces == ndJsonDeserialize(IOEnv.TRACE_FILE)
TraceNodeVal == <<1, 2, 1, 3, 2, 4>>

VARIABLES tid, l, bad
tvars == <<evars, tid, l, bad>>
Ev == Traces[tid].events
ASSUME TLCSet(1, {})

TInit == tid \in 1..Len(Traces) /\ l = 1 /\ bad = {} /\ top = "leaf" /\ ca = NoTerm /\ cb = NoTerm

Clauses(e) ==
  CASE e.mode = "output" -> <<
         <<"run_completed", e.ok>>,
         <<"output_equals_direct_evaluation", e.ok => e.obs = Exp(e.term)>> >>
    [] e.mode = "args" -> <<
         <<"run_completed", e.ok>>,
         <<"positional_arguments_in_order", e.ok => (Len(e.pos_obs) = Len(e.pos) /\ \A j \in DOMAIN e.pos : e.pos_obs[j] = Exp(e.pos[j]))>>,
         <<"keyword_names_in_given_order", e.ok => [j \in DOMAIN e.kw_obs |-> e.kw_obs[j][1]] = [j \in DOMAIN e.kw |-> e.kw[j][1]]>>,
         <<"keyword_values", e.ok => (Len(e.kw_obs) = Len(e.kw) /\ \A j \in DOMAIN e.kw : e.kw_obs[j][2] = Exp(e.kw[j][2]))>> >>
    [] e.mode = "unpack" -> <<
         \* unpack(iterable, n) yields exactly the n items, and refuses an iterable of any other length
         \* (with n = 0 nothing depends on the iterable, so it is not even evaluated)
         <<"unpack_exactly_n", e.n = 0 \/ e.ok = (e.n = e.m)>>,
         <<"unpack_items_in_order", e.ok => e.items = [j \in 1..e.n |-> j]>> >>
    [] OTHER -> << <<"unknown_mode", FALSE>> >>

TStep ==
  /\ l <= Len(Ev) /\ l' = l + 1 /\ UNCHANGED <<tid, evars>>
  /\ LET gs == Clauses(Ev[l]) IN bad' = bad \cup {<<l, gs[i][1]>> : i \in {j \in DOMAIN gs : ~gs[j][2]}}
TDone ==
  /\ l = Len(Ev) + 1
  /\ IF bad = {} THEN TLCSet(1, TLCGet(1) \cup {tid}) ELSE \A b \in bad : PrintT(<<"REJ", tid, b[1], b[2]>>)
  /\ l' = l + 1 /\ UNCHANGED <<evars, tid, bad>>
TNext == TStep \/ TDone
TSpec == TInit /\ [][TNext]_tvars
Post == PrintT(<<"ACCEPTED", TLCGet(1)>>)
=============================================================================
