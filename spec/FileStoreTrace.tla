--------------------------- MODULE FileStoreTrace ---------------------------
(***************************************************************************)
(* Trace monitor for FileStore.tla: operation traces of the real file      *)
(* stores (every open / write / close / rename / remove on the target and  *)
(* staging path, interposed by vf/fsx.py, with injected failures and       *)
(* simulated process death) are replayed against the protocol. Each event  *)
(* applies the effect of its FileStore action and records the guard        *)
(* clauses and invariants that do not hold; `snap` events compare what is  *)
(* really on disk (classified by the harness as absent / old / new /       *)
(* other) with the model's target and staging files.                       *)
(***************************************************************************)
EXTENDS FileStore, Json, IOUtils

Traces == ndJsonDeserialize(IOEnv.TRACE_FILE)

VARIABLES tid, l, bad,
          tm0,     \* modified time of the target when the current write began
          curw     \* id of the write the classes "old"/"new" refer to

tvars == <<fvars, tid, l, bad, tm0, curw>>
Ev == Traces[tid].events

ASSUME TLCSet(1, {})

TInit == tid \in 1..Len(Traces) /\ InitState /\ l = 1 /\ bad = {} /\ tm0 = 0 /\ curw = 0

Note(gs) == bad' = bad \cup {<<l, x>> : x \in Broken(gs)} \cup {<<l - 1, x>> : x \in Broken(InvG)}

TClass == IF target = Absent THEN "absent" ELSE IF ~target.complete THEN "other" ELSE IF target.w = curw THEN "new" ELSE "old"
ClassOk(obs) == obs = TClass \/ (obs = "same" /\ TClass \in {"old", "new"})

TStep ==
  /\ l <= Len(Ev)
  /\ l' = l + 1 /\ UNCHANGED tid
  /\ LET e == Ev[l] IN
     CASE e.e = "begin" ->
            BeginE /\ Note(BeginG) /\ tm0' = tm /\ curw' = nw + 1
       [] e.e = "open" /\ e.mode = "w" /\ e.role = "staging" ->
            OpenStagingE(e.fail) /\ Note(OpenStagingG) /\ UNCHANGED <<tm0, curw>>
       [] e.e = "open" /\ e.mode = "w" /\ e.role = "target" ->
            UNCHANGED <<fvars, tm0, curw>> /\ Note(TargetUntouchedG)
       [] e.e = "open" /\ e.mode = "r" ->
            UNCHANGED <<fvars, tm0, curw>> /\ Note(<<>>)
       [] e.e = "write" /\ e.role = "staging" ->
            WriteStagingE(e.fail) /\ Note(WriteStagingG) /\ UNCHANGED <<tm0, curw>>
       [] e.e = "write" /\ e.role = "target" ->
            UNCHANGED <<fvars, tm0, curw>> /\ Note(TargetUntouchedG)
       [] e.e = "raise" ->
            RaiseE /\ Note(<<>>) /\ UNCHANGED <<tm0, curw>>
       [] e.e = "close" /\ e.role = "staging" ->
            CloseStagingE(e.fail) /\ Note(CloseStagingG) /\ UNCHANGED <<tm0, curw>>
       [] e.e = "close" /\ e.role = "target" ->
            UNCHANGED <<fvars, tm0, curw>> /\ Note(<<>>)
       [] e.e = "replace" ->
            IF e.src = "staging" /\ e.dst = "target"
              THEN ReplaceE(e.fail) /\ Note(ReplaceG) /\ UNCHANGED <<tm0, curw>>
              ELSE UNCHANGED <<fvars, tm0, curw>> /\ Note(<< <<"replace_staging_onto_target", FALSE>> >>)
       [] e.e = "remove" /\ e.role = "staging" ->
            RemoveStagingE(e.fail) /\ Note(RemoveStagingG) /\ UNCHANGED <<tm0, curw>>
       [] e.e = "remove" /\ e.role = "target" ->
            UNCHANGED <<fvars, tm0, curw>> /\ Note(TargetUntouchedG)
       [] e.e = "end" ->
            EndE(e.ok) /\ Note(IF e.ok THEN EndOkG ELSE EndRaisedG) /\ UNCHANGED <<tm0, curw>>
       [] e.e = "regwrite" ->
            \* a complete write through a layer whose file operations are not observed (MountedStore):
            \* the register view only - the new value is in place
            /\ target' = File(nw + 1, TRUE) /\ clock' = clock + 1 /\ tm' = clock + 1 /\ nw' = nw + 1 /\ last' = nw + 1
            /\ outcome' = "ok" /\ UNCHANGED <<staging, pc, cur, clean, exc>>
            /\ tm0' = tm /\ curw' = nw + 1 /\ Note(BeginG)
       [] e.e = "regdelete" ->
            /\ target' = Absent /\ tm' = 0 /\ outcome' = "none"
            /\ UNCHANGED <<staging, clock, pc, cur, clean, exc, last, nw, tm0, curw>> /\ Note(BeginG)
       [] e.e = "kill" ->
            DieE /\ Note(<< <<"kill_in_write", pc # "idle">> >>) /\ UNCHANGED <<tm0, curw>>
       [] e.e = "snap" ->
            \* what is really on disk: target class, staging presence, whether the modified time moved
            /\ UNCHANGED <<fvars, tm0, curw>>
            /\ Note(<< <<"snap_target_old_or_new", e.t \in {"absent", "old", "new", "same"}>>,       \* C11
                       <<"snap_target_matches_protocol", ClassOk(e.t)>>,
                       <<"snap_staging_matches_protocol", e.s = (staging # Absent)>>,
                       <<"snap_mtime_only_with_new", e.mc = (tm # tm0)>> >>)                        \* C11
       [] e.e = "rejected" ->
            \* the write just ended by raising because the value is outside the store's domain (it cannot be
            \* serialised): that value can never be in place, so the target and its modified time are as before
            /\ UNCHANGED <<fvars, tm0, curw>>
            /\ Note(<< <<"rejected_value_leaves_target_untouched", e.t \in {"old", "same"} /\ ~e.mc>> >>)      \* C11
       [] e.e = "read" ->
            \* read() returned a value the harness classified by equality and type against what was written
            /\ UNCHANGED <<fvars, tm0, curw>>
            /\ Note(<< <<"read_returns_target", ClassOk(e.t)>> >>)                                   \* C12
       [] e.e = "mtime" ->
            /\ UNCHANGED <<fvars, tm0, curw>>
            /\ Note(<< <<"mtime_none_iff_absent", e.none = (target = Absent)>>,                      \* C12
                       <<"mtime_never_decreases", e.dec = FALSE>> >>)
       [] OTHER ->
            UNCHANGED <<fvars, tm0, curw>> /\ Note(<< <<"unknown_event", FALSE>> >>)

TDone ==
  /\ l = Len(Ev) + 1
  /\ LET allbad == bad \cup {<<l - 1, x>> : x \in Broken(InvG)} IN
       IF allbad = {} THEN TLCSet(1, TLCGet(1) \cup {tid})
                      ELSE \A b \in allbad : PrintT(<<"REJ", tid, b[1], b[2]>>)
  /\ l' = l + 1
  /\ UNCHANGED <<fvars, tid, bad, tm0, curw>>

TNext == TStep \/ TDone
TSpec == TInit /\ [][TNext]_tvars
Post == PrintT(<<"ACCEPTED", TLCGet(1)>>)
=============================================================================
