CONSTANTS
  Limit = 3
  MaxDepth = 8
SPECIFICATION Spec
INVARIANT FirstFrameIsUserSite
INVARIANT TruncatedBeyondLimit
INVARIANT NeverMoreThanLimit
INVARIANT RenderedOutermostFirst
CHECK_DEADLOCK FALSE
