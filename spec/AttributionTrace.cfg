CONSTANTS
  Limit = 3
  MaxDepth = 8
SPECIFICATION TSpec
POSTCONDITION Post
CHECK_DEADLOCK FALSE
