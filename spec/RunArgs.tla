------------------------------ MODULE RunArgs ------------------------------
(***************************************************************************)
(* Argument validation of `uberjob.run` (src/uberjob/_run.py): which       *)
(* argument classes are acceptable, what kind of error an unacceptable one *)
(* produces, and the guarantee a caller relies on: a call with an          *)
(* unacceptable argument is refused with TypeError / ValueError BEFORE     *)
(* anything happens - no store is asked anything, no call executes, the    *)
(* progress observer is not entered, the caller's Plan and Registry are    *)
(* untouched. The order in which several unacceptable arguments are        *)
(* examined is deliberately left open: the error is that of one of them.   *)
(*                                                                         *)
(* A decision table rather than a state machine (its sanity is ASSUMEd and *)
(* evaluated by TLC when the module is loaded); RunArgsTrace.tla compares  *)
(* it with the real function for every single class, every pair of         *)
(* unacceptable classes and a seeded sample of full combinations.          *)
(***************************************************************************)
EXTENDS Naturals, FiniteSets, TLC

Params == {"plan", "registry", "dry_run", "fresh_time", "transform_physical", "scheduler",
           "max_workers", "stale_check_max_workers", "max_errors", "retry", "progress"}

\* class -> "ok" | "TypeError" | "ValueError", per parameter
Table == [
  plan |-> [ok |-> "ok", graph |-> "TypeError", none |-> "TypeError"],
  registry |-> [none |-> "ok", ok |-> "ok", empty |-> "ok", dict |-> "TypeError"],
  dry_run |-> [false |-> "ok", true |-> "ok", one |-> "TypeError", none |-> "TypeError"],
  fresh_time |-> [none |-> "ok", naive |-> "ok", aware |-> "ok", date |-> "TypeError", str |-> "TypeError"],
  transform_physical |-> [none |-> "ok", fn |-> "ok", str |-> "TypeError"],
  scheduler |-> [none |-> "ok", default |-> "ok", random |-> "ok", int |-> "TypeError", other |-> "ValueError", upper |-> "ValueError"],
  max_workers |-> [none |-> "ok", one |-> "ok", three |-> "ok", true |-> "ok", str |-> "TypeError", float |-> "TypeError", zero |-> "ValueError", neg |-> "ValueError"],
  stale_check_max_workers |-> [none |-> "ok", two |-> "ok", str |-> "TypeError", zero |-> "ValueError"],
  max_errors |-> [none |-> "ok", zero |-> "ok", two |-> "ok", str |-> "TypeError", neg |-> "ValueError"],
  retry |-> [none |-> "ok", one |-> "ok", three |-> "ok", decorator |-> "ok", zero |-> "ValueError", neg |-> "ValueError", str |-> "TypeError", float |-> "TypeError"],
  progress |-> [none |-> "ok", false |-> "ok", true |-> "ok", obj |-> "ok", list |-> "ok", emptylist |-> "ok", int |-> "TypeError"]
]

Classes(p) == DOMAIN Table[p]
Cases == [Params -> UNION {Classes(p) : p \in Params}]
WellFormed(a) == \A p \in Params : a[p] \in Classes(p)

BadKinds(a) == {Table[p][a[p]] : p \in Params} \ {"ok"}
Acceptable(a) == BadKinds(a) = {}

\* what the caller may observe: outcome in {"ok"} \cup error kinds; effects = set of things that happened
Effects == {"mtime", "read", "write", "call", "entered", "plan_changed", "registry_changed"}
Allowed(a, outcome, effects) ==
  IF Acceptable(a)
    THEN outcome = "ok"
    ELSE outcome \in BadKinds(a) /\ effects = {}

VARIABLE a   \* the case at hand (set by the monitor)

\* every parameter has an acceptable class (so the all-acceptable case exists) and an unacceptable one
TableSane == \A p \in Params : (\E c \in Classes(p) : Table[p][c] = "ok") /\ (\E c \in Classes(p) : Table[p][c] # "ok")
ASSUME TableSane
ASSUME \A p \in Params : \A c \in Classes(p) : Table[p][c] \in {"ok", "TypeError", "ValueError"}
=============================================================================
