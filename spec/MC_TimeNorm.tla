---------------------------- MODULE MC_TimeNorm ----------------------------
EXTENDS TimeNorm
\* grid step = 30 minutes. Zones: UTC; fixed -5h; fixed +9h; a one-hour fall-back (-4h -> -5h) at instant 6;
\* a half-hour fall-back (+11h -> +10.5h) at instant 6
MCZones == { [t |-> 0, before |-> 0, after |-> 0], [t |-> 0, before |-> -10, after |-> -10], [t |-> 0, before |-> 18, after |-> 18],
             [t |-> 6, before |-> -8, after |-> -10], [t |-> 6, before |-> 22, after |-> 21] }
MCOffsets == {-10, 0, 18, 21}
=============================================================================
