CONSTANTS
  MaxPlans = 3
  MaxRegs = 2
  MaxNodes = 5
  MaxSteps = 12
SPECIFICATION SpecA
INVARIANT TypeOK
INVARIANT Emit
PROPERTY FrameCondition
CHECK_DEADLOCK FALSE
