---------------------------- MODULE CachingTrace ----------------------------
(***************************************************************************)
(* Trace monitor for Caching.tla: histories executed on the real library   *)
(* (uberjob.run with a Registry over harness stores whose contents are     *)
(* terms) are replayed event by event. Every event applies the *effect* of *)
(* the Caching action it corresponds to, with the values the               *)
(* implementation actually produced, and records the names of the guard    *)
(* clauses and invariants of Caching.tla that do not hold - in every       *)
(* recorded state, also in the middle of runs and after cuts. The monitor  *)
(* is total and deterministic, so one TLC run validates thousands of       *)
(* histories and names the clause each rejected one breaks.                *)
(***************************************************************************)
EXTENDS Caching, Json, IOUtils

Traces == ndJsonDeserialize(IOEnv.TRACE_FILE)
NoConfigs == {}

VARIABLES tid, l, bad,
          dry,        \* the run in progress is a dry run (nothing may execute)
          lastf, lasto  \* fresh / output of the last begin (re-armed when the dry-run plan is executed)

tvars == <<cfg, svars, tid, l, bad, dry, lastf, lasto>>

Ev == Traces[tid].events

ASSUME TLCSet(1, {})

TInit ==
  /\ tid \in 1..Len(Traces)
  /\ cfg = Traces[tid].scn
  /\ InitState
  /\ l = 1 /\ bad = {} /\ dry = FALSE /\ lastf = 0 /\ lasto = <<>>

\* The invariants are evaluated on the current state, i.e. the state the previous event produced
\* (and once more on the final state in TDone): TLC evaluates unprimed expressions with cached
\* lazy values, primed ones without, which made the primed form two orders of magnitude slower.
Note(gs) == bad' = bad \cup {<<l, x>> : x \in Broken(gs)} \cup {<<l - 1, x>> : x \in Broken(InvG)}
DryG == << <<"c14_nothing_executes_in_dry_run", ~dry>> >>

TStep ==
  /\ l <= Len(Ev)
  /\ l' = l + 1
  /\ UNCHANGED <<tid, cfg>>
  /\ LET e == Ev[l]
         n == e.n
     IN
     CASE e.e = "upd" ->
            UpdateSourceE(n) /\ Note(<< <<"upd_is_pure_source", PureSrc(n)>>, <<"upd_idle", phase = "idle">> >>) /\ UNCHANGED <<dry, lastf, lasto>>
       [] e.e = "del" ->
            DeleteE(n) /\ Note(<< <<"del_registered", Reg(n)>>, <<"del_idle", phase = "idle">> >>) /\ UNCHANGED <<dry, lastf, lasto>>
       [] e.e = "begin" ->
            /\ BeginRunE(e.f, e.o) /\ Note(<< <<"begin_idle", phase = "idle">> >>)
            /\ dry' = e.dry /\ lastf' = e.f /\ lasto' = e.o
       [] e.e = "mtime" ->
            \* the stale check asks a store for its modified time: no effect; it must see the store as it is
            /\ UNCHANGED <<svars, dry, lastf, lasto>>
            /\ Note(<< <<"mtime_consistent", e.r = mt[n]>> >>)
       [] e.e = "start" ->
            StartE(n) /\ Note(StartG(n) \o DryG) /\ UNCHANGED <<dry, lastf, lasto>>
       [] e.e = "end" ->
            EndE(n, e.v, e.sv) /\ Note(EndG(n, e.v) \o << <<"side_value", SideOf(n) # 0 => e.sv = SideVal(n)>> >>) /\ UNCHANGED <<dry, lastf, lasto>>
       [] e.e = "read" ->
            ReadE(n, e.v) /\ Note(ReadG(n, e.v) \o DryG) /\ UNCHANGED <<dry, lastf, lasto>>
       [] e.e = "write" ->
            WriteE(n, e.v) /\ Note(WriteG(n, e.v) \o DryG \o << <<"write_rank", e.r = clock + 1>> >>) /\ UNCHANGED <<dry, lastf, lasto>>
       [] e.e = "endfail" ->
            \* a failed attempt of a call: no effect on the stores. With retry the same call may be attempted again
            \* (the harness counts attempts against `retry`), so it is no longer `begun`; nothing downstream may run,
            \* which the guards of later events decide
            /\ begun' = begun \ {<<"call", n>>} /\ ncl' = [ncl EXCEPT ![n] = IF @ > 0 THEN @ - 1 ELSE 0]
            /\ UNCHANGED <<storevars, phase, fresh, out, mt0, stale, pm, todo, done, mem, got, nrd, nwr, wr, outcome, outval, dry, lastf, lasto>>
            /\ Note(DryG)
       [] e.e = "undo" ->
            \* an operation took effect and then raised (a cut after the effect): with retry it may be performed
            \* again, so for the run's bookkeeping it has not been performed; its effect on the stores stays
            /\ begun' = begun \ {<<e.k, n>>} /\ done' = done \ {<<e.k, n>>}
            /\ nrd' = [nrd EXCEPT ![n] = IF e.k = "read" /\ @ > 0 THEN @ - 1 ELSE @]
            /\ nwr' = [nwr EXCEPT ![n] = IF e.k = "write" /\ @ > 0 THEN @ - 1 ELSE @]
            /\ ncl' = [ncl EXCEPT ![n] = IF e.k = "call" /\ @ > 0 THEN @ - 1 ELSE @]
            /\ UNCHANGED <<storevars, phase, fresh, out, mt0, stale, pm, todo, mem, got, wr, outcome, outval, dry, lastf, lasto>>
            /\ Note(<<>>)
       [] e.e \in {"readfail", "writefail", "mtimefail", "cut"} ->
            /\ UNCHANGED <<svars, dry, lastf, lasto>>
            /\ Note(IF e.e \in {"readfail", "writefail"} THEN DryG ELSE <<>>)
       [] e.e = "rend" ->
            /\ UNCHANGED <<lastf, lasto>> /\ dry' = FALSE
            /\ IF e.ok THEN EndRunE(e.v) /\ Note(EndRunG(e.v))
                       ELSE AbortE /\ Note(<< <<"abort_in_run", phase = "run">> >>)
       [] e.e = "dry" ->
            \* the physical plan a dry run returned, projected by the harness to its executable operations
            \* and their ancestor sets: it must be the plan of Caching.tla
            /\ UNCHANGED <<svars, dry, lastf, lasto>>
            /\ Note(<< <<"c14_dry_plan_ops", e.known => Range(e.ops) = todo>>,
                       <<"c14_dry_plan_order", e.known => \A i \in DOMAIN e.ops : Range(e.anc[i]) = PmAnc(e.ops[i])>>,
                       <<"c14_dry_plan_transformed", e.tpok>>,
                       <<"c14_output_node_in_returned_plan", e.outin>>,   \* self-contained: the returned output node is a node of the returned plan      \* transform_physical was applied to the returned plan
                       <<"c14_dry_is_dry", dry>> >>)
       [] e.e = "dryend" ->
            \* the dry run returned: nothing happened; the harness now executes the returned plan by itself,
            \* which must be a legal run from the same state
            /\ BeginRunE(lastf, lasto) /\ dry' = FALSE /\ UNCHANGED <<lastf, lasto>>
            /\ Note(<< <<"c14_dry_run_executed_nothing", begun = {}>>, <<"c14_dry_run_left_stores", mt = mt0>> >>)
       [] e.e = "digest" ->
            /\ UNCHANGED <<svars, dry, lastf, lasto>>
            /\ Note(<< <<"c13_plan_and_registry_unchanged", e.same>> >>)
       [] OTHER ->
            /\ UNCHANGED <<svars, dry, lastf, lasto>>
            /\ Note(<< <<"unknown_event", FALSE>> >>)

TDone ==
  /\ l = Len(Ev) + 1
  /\ LET allbad == bad \cup {<<l - 1, x>> : x \in Broken(InvG)} IN
       IF allbad = {} THEN TLCSet(1, TLCGet(1) \cup {tid})
                      ELSE \A b \in allbad : PrintT(<<"REJ", tid, b[1], b[2]>>)
  /\ l' = l + 1
  /\ UNCHANGED <<cfg, svars, tid, bad, dry, lastf, lasto>>

TNext == TStep \/ TDone
TSpec == TInit /\ [][TNext]_tvars

Post == PrintT(<<"ACCEPTED", TLCGet(1)>>)
=============================================================================
