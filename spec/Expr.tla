-------------------------------- MODULE Expr --------------------------------
(***************************************************************************)
(* C02: what `run` returns for a symbolic expression. Terms are what a     *)
(* user writes as an output specification or as an argument of plan.call:  *)
(*   atom      an arbitrary non-symbolic object                            *)
(*   node      a symbolic call (it evaluates to a known value)             *)
(*   list / tuple / set / dict   *exact* built-in containers of terms      *)
(*   sub       an instance of a container subclass (or any other object    *)
(*             holding nodes inside): opaque to gather                     *)
(* Every container carries an identifier so that "the very same object"    *)
(* can be stated.                                                          *)
(*                                                                         *)
(* Gather transcribes Plan._gather: a container that (transitively,        *)
(* through exact containers only) holds a node becomes a call to           *)
(* gather_<kind> over its gathered children; everything else becomes a     *)
(* literal holding the object itself. Eval runs that graph. Subst is the   *)
(* independent reading of the property: replace every node by its value    *)
(* and rebuild the shape. EvalEqualsSubstitution relates the two;          *)
(* Exp(t) = Eval(Gather(t)) is what the harness compares real runs with,   *)
(* including which sub-objects must be passed through untouched.           *)
(***************************************************************************)
EXTENDS Integers, Sequences, FiniteSets, SequencesExt, TLC

CONSTANTS NAtoms, NNodes, NodeVal, MaxDepth, MaxWidth
\* NodeVal[n] : identifier of the value node n evaluates to (two nodes may share a value: colliding keys / set members)

Tm(k, i, c) == [k |-> k, i |-> i, c |-> c]
Leaves == {Tm("atom", a, <<>>) : a \in 1..NAtoms} \cup {Tm("node", n, <<>>) : n \in 1..NNodes}
SeqsUpTo(S, w) == UNION {[1..n -> S] : n \in 0..w}
Items(KS, VS) == {Tm("item", 0, <<key, val>>) : key \in KS, val \in VS}
\* container identifiers are irrelevant to the shape; the model uses 0 and the harness real ids
RECURSIVE Terms(_)
Terms(d) ==
  IF d = 0 THEN Leaves
  ELSE LET T == Terms(d - 1) IN
       Leaves \cup {Tm(kind, 0, s) : kind \in {"list", "tuple", "sub"}, s \in SeqsUpTo(T, MaxWidth)}
              \cup {Tm("set", 0, s) : s \in SeqsUpTo(Leaves, MaxWidth)}                 \* members / keys: hashable leaves
              \cup {Tm("dict", 0, s) : s \in SeqsUpTo(Items(Leaves, T), MaxWidth)}

RECURSIVE HasNode(_)
HasNode(t) ==
  CASE t.k = "node" -> TRUE
    [] t.k \in {"atom", "sub"} -> FALSE                                   \* opaque: gather does not look inside
    [] OTHER -> \E j \in DOMAIN t.c : HasNode(t.c[j])

\* ---- values -----------------------------------------------------------------
Vl(v, i, c) == [v |-> v, i |-> i, c |-> c]
Key(x) == (IF x.v = "obj" THEN 0 ELSE IF x.v = "val" THEN 1000 ELSE 2000) + x.i
\* Python's dict(...) over (key, value) pairs: position of the first occurrence, value of the last
RECURSIVE DictOf(_, _)
DictOf(items, acc) ==
  IF items = <<>> THEN acc
  ELSE LET it == Head(items)
           pos == {j \in DOMAIN acc : acc[j].c[1] = it.c[1]}
       IN IF pos = {} THEN DictOf(Tail(items), Append(acc, it))
          ELSE LET j == CHOOSE x \in pos : TRUE IN DictOf(Tail(items), [acc EXCEPT ![j] = it])
SetOf(members) == SetToSortSeq({members[j] : j \in DOMAIN members}, LAMBDA a, b : Key(a) < Key(b))
Build(kind, vals) ==
  CASE kind = "set" -> Vl("set", 0, SetOf(vals))
    [] kind = "dict" -> Vl("dict", 0, DictOf(vals, <<>>))
    [] OTHER -> Vl(kind, 0, vals)

\* ---- Plan._gather and the evaluation of the graph it builds ---------------------
\* a gathered term: <<"lit", t>> the object itself, or <<"call", kind, children>>
RECURSIVE Gather(_)
Gather(t) ==
  IF t.k = "node" THEN <<"node", t.i>>
  ELSE IF ~HasNode(t) THEN <<"lit", t>>
  ELSE <<"call", t.k, [j \in DOMAIN t.c |-> Gather(t.c[j])]>>
\* the very object that was supplied (a node-free dict item is the (key, value) pair of those very objects)
Same(t) == IF t.k = "atom" THEN Vl("obj", t.i, <<>>)
           ELSE IF t.k = "item" THEN Vl("item", 0, <<IF t.c[1].k = "atom" THEN Vl("obj", t.c[1].i, <<>>) ELSE Vl("same", t.c[1].i, <<>>),
                                                     IF t.c[2].k = "atom" THEN Vl("obj", t.c[2].i, <<>>) ELSE Vl("same", t.c[2].i, <<>>)>>)
           ELSE Vl("same", t.i, <<>>)
RECURSIVE Eval(_)
Eval(g) ==
  CASE g[1] = "node" -> Vl("val", NodeVal[g[2]], <<>>)
    [] g[1] = "lit" -> Same(g[2])
    [] OTHER -> Build(g[2], [j \in DOMAIN g[3] |-> Eval(g[3][j])])
Exp(t) == Eval(Gather(t))

\* ---- the property's own reading: substitute and rebuild ------------------------------
RECURSIVE Subst(_)
Subst(t) ==
  CASE t.k = "node" -> Vl("val", NodeVal[t.i], <<>>)
    [] t.k = "atom" -> Vl("obj", t.i, <<>>)
    [] t.k = "sub" -> Vl("same", t.i, <<>>)                                     \* an opaque object is itself
    [] OTHER -> Build(t.k, [j \in DOMAIN t.c |-> Subst(t.c[j])])
\* forget identity: a passed-through node-free object equals its rebuilt copy
RECURSIVE Erase(_, _)
Erase(x, t) ==
  IF x.v = "same" /\ t.k # "sub" THEN Subst(t)
  ELSE x

\* A case: a top-level shape over (up to two) children taken from Terms(MaxDepth - 1); chosen through
\* separate variables so that TLC enumerates the product lazily instead of building one huge set.
NoTerm == Tm("none", 0, <<>>)
VARIABLES top, ca, cb
evars == <<top, ca, cb>>
Sub1 == Terms(MaxDepth - 1)
Init ==
  /\ top \in {"leaf", "list", "tuple", "sub", "set", "dict"}
  /\ ca \in Sub1 \cup {NoTerm} /\ cb \in Sub1 \cup {NoTerm}
  /\ (ca = NoTerm => cb = NoTerm)
  /\ (top = "leaf" => ca \in Leaves /\ cb = NoTerm)
  /\ (top = "set" => ca \in Leaves \cup {NoTerm} /\ cb \in Leaves \cup {NoTerm})
  /\ (top = "dict" => ca.k \in {"atom", "node", "none"} /\ cb.k \in {"atom", "node", "none"})   \* keys; values are derived below
Next == UNCHANGED evars
Spec == Init /\ [][Next]_evars
Kids == IF ca = NoTerm THEN <<>> ELSE IF cb = NoTerm THEN <<ca>> ELSE <<ca, cb>>
\* for a dict the two chosen leaves are keys; their values are fixed sample terms (a node, a list holding a node)
DictKids == [j \in DOMAIN Kids |-> Tm("item", 0, <<Kids[j], IF j = 1 THEN Tm("node", 1, <<>>) ELSE Tm("list", 0, <<Tm("node", 2, <<>>), Tm("atom", 1, <<>>)>>)>>)]
term == IF top = "leaf" THEN ca ELSE IF top = "dict" THEN Tm("dict", 0, DictKids) ELSE Tm(top, 0, Kids)

\* evaluating the gathered graph = substituting values for nodes (up to identity of node-free parts)
RECURSIVE EqUpToIdentity(_, _, _)
EqUpToIdentity(x, y, t) ==
  IF x.v = "same" /\ t.k # "sub" THEN y = Subst(t)
  ELSE IF x.v \in {"list", "tuple"} /\ t.k \in {"list", "tuple"}
       THEN x.v = y.v /\ Len(x.c) = Len(y.c) /\ \A j \in DOMAIN x.c : EqUpToIdentity(x.c[j], y.c[j], t.c[j])
  ELSE x = y
EvalEqualsSubstitution == EqUpToIdentity(Exp(term), Subst(term), term)
\* node-free arguments are passed as the very objects supplied
NodeFreePassedThrough == ~HasNode(term) => Exp(term) = Same(term)
\* only exact containers holding a node are rebuilt, with the same type
RebuiltKeepsType == (HasNode(term) /\ term.k # "node") => Exp(term).v = term.k
=============================================================================
