CONSTANTS
  Ops = {1, 2, 3}
  MaxVal = 2
SPECIFICATION MSpec
INVARIANT NoScratchLeft
INVARIANT OwnScratch
INVARIANT ReadsLast
INVARIANT RemoteIsLastPublished
PROPERTY PublishOnly
PROPERTY FailedWriteKeepsRemote
CHECK_DEADLOCK FALSE
