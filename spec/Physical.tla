------------------------------ MODULE Physical ------------------------------
(***************************************************************************)
(* Result slots and bound calls of `run_physical` (C16). Every call has a  *)
(* result slot; a BoundCall object, created for every call before the run  *)
(* starts, references the slots of the call's arguments and is dropped     *)
(* when the call has finished (`finally: bound_call.value = None`); the    *)
(* lookup table of slots is local to the preparation step. So a result is  *)
(* reachable from uberjob exactly while some consumer's BoundCall still    *)
(* exists, or for good if it is (part of) the requested output.            *)
(*                                                                         *)
(* A call's life as observable from outside: idle -> run (its function is  *)
(* executing) -> ended (the function returned; the worker may still hold   *)
(* the BoundCall for a moment) -> done (the engine has reported it         *)
(* completed / the worker has moved on).                                   *)
(***************************************************************************)
EXTENDS Integers, FiniteSets, Sequences, TLC

CONSTANT PConfigs
VARIABLE pcfg      \* [calls, cons, outs] : cons[c] = calls that take c's result as an argument; outs = output nodes

PCalls == pcfg.calls
Cons(c) == pcfg.cons[c]
Outs == pcfg.outs

VARIABLES pst,      \* pst[c] \in {"idle", "run", "ended", "done"}
          bound,    \* bound[c] : c's BoundCall (and with it the references to its argument slots) still exists
          held      \* held[c] : c's result slot holds its result

physvars == <<pst, bound, held>>

PInitState ==
  /\ pst = [c \in PCalls |-> "idle"]
  /\ bound = [c \in PCalls |-> TRUE]
  /\ held = [c \in PCalls |-> FALSE]

Holds(gs) == \A i \in DOMAIN gs : gs[i][2]
Broken(gs) == {gs[i][1] : i \in {j \in DOMAIN gs : ~gs[j][2]}}

\* what uberjob can still reach
Reachable(n) == held[n] /\ (n \in Outs \/ bound[n] \/ \E c \in Cons(n) : bound[c])      \* a BoundCall references its own result slot too
\* what the property allows to be alive: the output, or something with an unfinished consumer
MayLive(n) == n \in Outs \/ pst[n] \in {"run", "ended"} \/ \E c \in Cons(n) : pst[c] \in {"idle", "run", "ended"}

PStartE(c) == pst' = [pst EXCEPT ![c] = "run"] /\ UNCHANGED <<bound, held>>
PEndE(c) == pst' = [pst EXCEPT ![c] = "ended"] /\ held' = [held EXCEPT ![c] = TRUE] /\ UNCHANGED bound
\* the worker drops the BoundCall, then reports completion
PDropE(c) == bound' = [bound EXCEPT ![c] = FALSE] /\ UNCHANGED <<pst, held>>
PDoneE(c) == pst' = [pst EXCEPT ![c] = "done"] /\ UNCHANGED <<bound, held>>

PStart(c) == pst[c] = "idle" /\ (\A p \in PCalls : c \in Cons(p) => pst[p] \in {"ended", "done"}) /\ PStartE(c)
PEnd(c) == pst[c] = "run" /\ PEndE(c)
PDrop(c) == pst[c] = "ended" /\ bound[c] /\ PDropE(c)
PDone(c) == pst[c] = "ended" /\ ~bound[c] /\ PDoneE(c)     \* completion is reported only after the BoundCall is gone

PNext == (\E c \in PCalls : PStart(c) \/ PEnd(c) \/ PDrop(c) \/ PDone(c)) /\ pcfg' = pcfg
PSpec == pcfg \in PConfigs /\ PInitState /\ [][PNext]_<<pcfg, physvars>>

\* C16: whatever uberjob can still reach may live
ReleasedAfterLastConsumer == \A n \in PCalls : Reachable(n) => MayLive(n)
=============================================================================
