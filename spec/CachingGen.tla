----------------------------- MODULE CachingGen -----------------------------
(* Scenario records for MC_Caching. This checked-in file holds a small default set; the checks
   regenerate it (vf/cscen.py) in a scratch copy of the spec directory with the scenarios they
   also execute on the real code. *)
GenConfigs == {
  [N |-> 3, kind |-> <<"call", "call", "call">>, args |-> <<<<>>, <<1>>, <<2>>>>, deps |-> <<<<>>, <<>>, <<>>>>,
   reg |-> <<"src", "stored", "stored">>, wof |-> <<0, 0, 0>>, side |-> <<0, 0, 0>>, norm |-> TRUE, consistent |-> TRUE,
   outs |-> {<<>>, <<3>>}],
  [N |-> 4, kind |-> <<"call", "call", "call", "call">>, args |-> <<<<>>, <<1>>, <<>>, <<3>>>>, deps |-> <<<<>>, <<>>, <<2>>, <<>>>>,
   reg |-> <<"src", "none", "src", "stored">>, wof |-> <<0, 0, 2, 0>>, side |-> <<0, 3, 0, 0>>, norm |-> FALSE, consistent |-> TRUE,
   outs |-> {<<>>, <<4>>, <<3, 4>>}] }
=============================================================================
