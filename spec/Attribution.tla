----------------------------- MODULE Attribution -----------------------------
(***************************************************************************)
(* C19: which source lines a failure is attributed to. A symbolic call     *)
(* remembers, from the moment it was created, the user's call stack at the *)
(* creating line: the creating frame and its callers up to a fixed depth   *)
(* limit, then a "truncated" marker (_util/traceback.get_stack_frame).     *)
(* Calls that uberjob derives from a user-level operation inherit that     *)
(* operation's stack: the implicit gather calls of plan.call / plan.unpack *)
(* arguments, the unpack and getitem calls of plan.unpack, the store       *)
(* write / read calls inserted for registry.add (the add line) and         *)
(* registry.source (the source line), the gather of run(output=...) (the   *)
(* run line). A failed modified-time query is attributed to the examined   *)
(* node, i.e. to the line that created it.                                 *)
(*                                                                         *)
(* The user's stack at the creating line is abstracted to its depth n      *)
(* (frame 0 = the creating line, n-1 = outermost); observed frames are     *)
(* reported as indices into that stack (-1 = a frame that is not the       *)
(* user's, e.g. a line inside uberjob).                                    *)
(***************************************************************************)
EXTENDS Integers, Sequences, TLC

CONSTANTS Limit,        \* MAX_TRACEBACK_DEPTH: frames 0..Limit are kept
          MaxDepth      \* stack depths explored

\* operations a user performs, and the physical calls that may fail because of them
Ops == {"call", "gather", "unpack", "add", "source", "run_output"}
FailingOf(op) ==
  CASE op = "call" -> {"user_call", "implicit_gather"}
    [] op = "gather" -> {"gather"}
    [] op = "unpack" -> {"unpack", "implicit_gather"}
    [] op = "add" -> {"store_write", "store_read_back"}
    [] op = "source" -> {"source_read", "mtime_query"}
    [] op = "run_output" -> {"output_gather"}
\* a modified-time query of a stored (registry.add) node is attributed to the line that created the node
MtimeOfStored == [op |-> "call", failing |-> "mtime_query"]

Capture(n) == [frames |-> [i \in 1..(IF n <= Limit + 1 THEN n ELSE Limit + 1) |-> i - 1], truncated |-> n > Limit + 1]
Reverse(s) == [i \in 1..Len(s) |-> s[Len(s) + 1 - i]]
Rendered(n) == Reverse(Capture(n).frames)     \* outermost first; the truncated marker, if any, comes before them

VARIABLES op, failing, depth
avars == <<op, failing, depth>>
Init == /\ op \in Ops /\ failing \in FailingOf(op) /\ depth \in 1..MaxDepth
Next == UNCHANGED avars
Spec == Init /\ [][Next]_avars

\* properties of the table itself
FirstFrameIsUserSite == Capture(depth).frames[1] = 0
TruncatedBeyondLimit == Capture(depth).truncated <=> depth > Limit + 1
NeverMoreThanLimit == Len(Capture(depth).frames) <= Limit + 1
RenderedOutermostFirst == LET r == Rendered(depth) IN \A i \in 1..(Len(r) - 1) : r[i] > r[i + 1]
=============================================================================
