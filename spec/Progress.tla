------------------------------ MODULE Progress ------------------------------
(***************************************************************************)
(* The notification protocol between `uberjob.run` and a ProgressObserver  *)
(* (progress/_progress_observer.py): enter, per (section, scope) totals,   *)
(* running / completed / failed, exit - and, for the bundled displays      *)
(* (progress/_simple_progress_observer.py), the clock: time passes (Tick)  *)
(* and the display is refreshed (Render) at arbitrary points in between.   *)
(*                                                                         *)
(* Used in two directions:                                                 *)
(*  - as a *monitor* (ProgressTrace.tla): what a recording observer        *)
(*    received from real runs must be a behaviour of this module (C15);    *)
(*  - as a *generator*: TLC enumerates / samples the legal notification    *)
(*    sequences with Tick and Render interleaved anywhere; each is         *)
(*    replayed into the real Console / HTML / IPython observers, whose     *)
(*    rendering must not fail, must end with the final counts, and whose   *)
(*    per-scope elapsed times must add up to `busy` (C20).                 *)
(***************************************************************************)
EXTENDS Integers, Sequences, FiniteSets, TLC

CONSTANTS Sections,     \* e.g. {"stale", "run"}
          Scopes,       \* abstract scope identifiers
          MaxTotal,     \* bound on the total announced per (section, scope)
          MaxTicks,     \* bound on clock ticks
          MaxRenders    \* bound on render points

Keys == Sections \X Scopes

VARIABLES entered, exited,
          tot, run, comp, fail,    \* per <<section, scope>>
          now,                     \* the clock (ticks)
          busy,                    \* ticks during which at least one call was running
          renders,                 \* render points so far
          hist                     \* the notification sequence (generator output; hidden by VIEW in exhaustive runs)

pvars == <<entered, exited, tot, run, comp, fail, now, busy, renders>>
vars == <<pvars, hist>>

Running == {k \in Keys : run[k] > 0}
Started(k) == run[k] + comp[k] + fail[k]

InitState ==
  /\ entered = FALSE /\ exited = FALSE
  /\ tot = [k \in Keys |-> 0] /\ run = [k \in Keys |-> 0] /\ comp = [k \in Keys |-> 0] /\ fail = [k \in Keys |-> 0]
  /\ now = 0 /\ busy = 0 /\ renders = 0
Init == InitState /\ hist = <<>>

Holds(gs) == \A i \in DOMAIN gs : gs[i][2]
Broken(gs) == {gs[i][1] : i \in {j \in DOMAIN gs : ~gs[j][2]}}

\* ---- guards (C15) ------------------------------------------------------------
EnterG == << <<"enter_once_first", ~entered /\ ~exited>> >>
Active == << <<"after_enter", entered>>, <<"before_exit", ~exited>> >>
TotalG(k, amt) == Active \o << <<"total_positive", amt >= 1>> >>
RunningG(k) == Active \o <<
  <<"total_announced_before_running", tot[k] >= 1>>,
  <<"running_within_total", Started(k) < tot[k]>> >>
CompletedG(k) == Active \o << <<"completed_follows_running", run[k] > 0>> >>
FailedG(k) == Active \o << <<"failed_follows_running", run[k] > 0>> >>
\* clean: every call ended normally or with an Exception (the property's premise for 'nothing left running')
ExitG(clean) == <<
  <<"exit_after_enter", entered>>,
  <<"exit_once", ~exited>>,
  <<"nothing_running_at_exit", clean => Running = {}>> >>
\* after a successful run
SuccessG == << <<"completed_equals_total", \A k \in Keys : comp[k] = tot[k] /\ fail[k] = 0 /\ run[k] = 0>> >>

\* ---- effects -----------------------------------------------------------------
EnterE == entered' = TRUE /\ UNCHANGED <<exited, tot, run, comp, fail, now, busy, renders>>
TotalE(k, amt) == tot' = [tot EXCEPT ![k] = @ + amt] /\ UNCHANGED <<entered, exited, run, comp, fail, now, busy, renders>>
RunningE(k) == run' = [run EXCEPT ![k] = @ + 1] /\ UNCHANGED <<entered, exited, tot, comp, fail, now, busy, renders>>
CompletedE(k) == run' = [run EXCEPT ![k] = @ - 1] /\ comp' = [comp EXCEPT ![k] = @ + 1] /\ UNCHANGED <<entered, exited, tot, fail, now, busy, renders>>
FailedE(k) == run' = [run EXCEPT ![k] = @ - 1] /\ fail' = [fail EXCEPT ![k] = @ + 1] /\ UNCHANGED <<entered, exited, tot, comp, now, busy, renders>>
ExitE == exited' = TRUE /\ UNCHANGED <<entered, tot, run, comp, fail, now, busy, renders>>
TickE == now' = now + 1 /\ busy' = (IF Running # {} THEN busy + 1 ELSE busy) /\ UNCHANGED <<entered, exited, tot, run, comp, fail, renders>>
RenderE == renders' = renders + 1 /\ UNCHANGED <<entered, exited, tot, run, comp, fail, now, busy>>

\* ---- actions (generator) -----------------------------------------------------
Ev(name, k, amt) == [e |-> name, sec |-> k[1], sc |-> k[2], amt |-> amt]
NoKey == <<"", 0>>
Enter == Holds(EnterG) /\ EnterE /\ hist' = Append(hist, Ev("enter", NoKey, 0))
\* uberjob announces all totals of a section before anything in that section is reported running
\* (_update_stale_totals / _update_run_totals): the generator produces only such sequences; the
\* bundled console display relies on it (a section that was shown complete is not printed again)
Total(k, amt) ==
  /\ Holds(TotalG(k, amt)) /\ tot[k] + amt <= MaxTotal
  /\ \A s \in Scopes : Started(<<k[1], s>>) = 0
  /\ TotalE(k, amt) /\ hist' = Append(hist, Ev("total", k, amt))
DoRunning(k) == Holds(RunningG(k)) /\ RunningE(k) /\ hist' = Append(hist, Ev("running", k, 0))
DoCompleted(k) == Holds(CompletedG(k)) /\ CompletedE(k) /\ hist' = Append(hist, Ev("completed", k, 0))
DoFailed(k) == Holds(FailedG(k)) /\ FailedE(k) /\ hist' = Append(hist, Ev("failed", k, 0))
Exit == Holds(ExitG(TRUE)) /\ ExitE /\ hist' = Append(hist, Ev("exit", NoKey, 0))
Tick == entered /\ ~exited /\ now < MaxTicks /\ TickE /\ hist' = Append(hist, Ev("tick", NoKey, 0))
Render == entered /\ ~exited /\ renders < MaxRenders /\ RenderE /\ hist' = Append(hist, Ev("render", NoKey, 0))

Next ==
  \/ Enter \/ Exit \/ Tick \/ Render
  \/ \E k \in Keys : DoRunning(k) \/ DoCompleted(k) \/ DoFailed(k) \/ \E a \in 1..MaxTotal : Total(k, a)
Spec == Init /\ [][Next]_vars

View == pvars

\* ---- properties of the protocol ------------------------------------------------
TypeOK == \A k \in Keys : run[k] >= 0 /\ comp[k] >= 0 /\ fail[k] >= 0 /\ Started(k) <= tot[k]
ExitedIsFinal == [][exited => UNCHANGED pvars]_vars
NothingRunningAfterExit == exited => Running = {}
BusyWithinNow == busy <= now

InvG == << <<"inv_TypeOK", TypeOK>> >>
=============================================================================
