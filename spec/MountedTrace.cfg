CONSTANTS
  Ops = {1, 2, 3, 4, 5, 6, 7, 8, 9, 10, 11, 12}
  MaxVal = 99
SPECIFICATION TSpec
POSTCONDITION Post
CHECK_DEADLOCK FALSE
