------------------------------ MODULE MC_Expr ------------------------------
EXTENDS Expr
MCNodeVal2 == <<1, 1>>       \* two nodes evaluating to the same value (colliding keys / set members)
MCNodeVal3 == <<1, 2, 1>>
=============================================================================
