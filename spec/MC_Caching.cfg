CONSTANTS
  Configs <- GenConfigs
  MaxClock = 9
SPECIFICATION Spec
CONSTRAINT ClockBound
INVARIANT TypeOK
INVARIANT SameAsFromScratch
INVARIANT StaleIsOutOfDate
INVARIANT ExactlyStaleRebuilt
INVARIANT SecondRunNoOp
INVARIANT LooksFreshImpliesCorrect
INVARIANT CompletedWritesKept
INVARIANT PlanOrderSufficient
INVARIANT DownstreamRebuilt
INVARIANT PlanClosed
CHECK_DEADLOCK FALSE
