CONSTANTS
  MaxWrites = 0
  CleanupOnReplaceFailure = FALSE
SPECIFICATION TSpec
POSTCONDITION Post
CHECK_DEADLOCK FALSE
