--------------------------- MODULE ProgressTrace ---------------------------
(***************************************************************************)
(* Trace monitor for Progress.tla (C15): the notifications a recording     *)
(* ProgressObserver received from real runs, joined by the harness with    *)
(* what actually executed, replayed against the protocol. Scopes are       *)
(* numbered by the harness per trace (one number per distinct (section,    *)
(* scope tuple)).                                                          *)
(***************************************************************************)
EXTENDS Progress, Json, IOUtils

Traces == ndJsonDeserialize(IOEnv.TRACE_FILE)
TraceScopes == 1..48

VARIABLES tid, l, bad
tvars == <<pvars, hist, tid, l, bad>>
Ev1 == Traces[tid].events

ASSUME TLCSet(1, {})

TInit == tid \in 1..Len(Traces) /\ InitState /\ hist = <<>> /\ l = 1 /\ bad = {}

Note(gs) == bad' = bad \cup {<<l, x>> : x \in Broken(gs)} \cup {<<l - 1, x>> : x \in Broken(InvG)}

RECURSIVE SumOver(_, _)
SumOver(f, S) == IF S = {} THEN 0 ELSE LET x == CHOOSE y \in S : TRUE IN f[x] + SumOver(f, S \ {x})
Range(s) == {s[i] : i \in DOMAIN s}

TStep ==
  /\ l <= Len(Ev1)
  /\ l' = l + 1 /\ UNCHANGED <<tid, hist>>
  /\ LET e == Ev1[l]
         k == <<e.sec, e.sc>>
     IN
     CASE e.e = "enter" -> EnterE /\ Note(EnterG)
       [] e.e = "total" -> TotalE(k, e.amt) /\ Note(TotalG(k, e.amt))
       [] e.e = "running" -> RunningE(k) /\ Note(RunningG(k))
       [] e.e = "completed" -> CompletedE(k) /\ Note(CompletedG(k))
       [] e.e = "failed" -> FailedE(k) /\ Note(FailedG(k))
       [] e.e = "exit" -> ExitE /\ Note(ExitG(e.clean))
       [] e.e = "summary" ->
            \* run returned or raised; the harness says what executed
            /\ UNCHANGED pvars
            /\ Note(<< <<"exited_when_run_ended", exited>>,
                       <<"entered_when_run_ended", entered>>,
                       <<"composite_members_identical", e.members_equal>> >>
                    \o (IF e.ok THEN SuccessG \o <<
                          \* 'run' totals per scope = number of calls executed with that scope (user calls: exact per label)
                          <<"run_total_per_user_scope", \A i \in DOMAIN e.exp : tot[<<"run", e.exp[i][1]>>] = e.exp[i][2]>>,
                          <<"run_total_sum", SumOver(tot, {<<"run", s>> : s \in Scopes}) = e.runcalls>>,
                          <<"stale_total_examined", SumOver(tot, {<<"stale", s>> : s \in Scopes}) = e.stalecalls>> >>
                        ELSE <<>>))
       [] OTHER -> UNCHANGED pvars /\ Note(<< <<"unknown_event", FALSE>> >>)

TDone ==
  /\ l = Len(Ev1) + 1
  /\ LET allbad == bad \cup {<<l - 1, x>> : x \in Broken(InvG)} IN
       IF allbad = {} THEN TLCSet(1, TLCGet(1) \cup {tid})
                      ELSE \A b \in allbad : PrintT(<<"REJ", tid, b[1], b[2]>>)
  /\ l' = l + 1
  /\ UNCHANGED <<pvars, hist, tid, bad>>

TNext == TStep \/ TDone
TSpec == TInit /\ [][TNext]_tvars
Post == PrintT(<<"ACCEPTED", TLCGet(1)>>)
=============================================================================
