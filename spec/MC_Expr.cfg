CONSTANTS
  NAtoms = 1
  NNodes = 2
  NodeVal <- MCNodeVal2
  MaxDepth = 2
  MaxWidth = 2
SPECIFICATION Spec
INVARIANT EvalEqualsSubstitution
INVARIANT NodeFreePassedThrough
INVARIANT RebuiltKeepsType
CHECK_DEADLOCK FALSE
