------------------------------- MODULE Engine -------------------------------
(***************************************************************************)
(* The thread-pool engine of uberjob                                       *)
(*   src/uberjob/_execution/run_function_on_graph.py + scheduler.py        *)
(* at the grain of the implementation: one action per critical section or  *)
(* unprotected shared access of `process_node`, the worker loop, and the   *)
(* coordinating (calling) thread with its worker-pool clean-up protocol.   *)
(*                                                                         *)
(* Queue operations (`get`, `put`, `task_done`, `join`) are atomic steps:  *)
(* queue.Queue protects each of them with its mutex, and the conformance   *)
(* harness runs the unmodified stdlib code.  The queue is a *bag* and the  *)
(* dequeue choice is arbitrary, which covers the FIFO ("cheap"), random    *)
(* and priority ("default") queues of scheduler.py; a bag also makes a     *)
(* double enqueue representable.                                           *)
(*                                                                         *)
(* Environment actions: KeyboardInterrupt delivered to the coordinator     *)
(* while it starts the workers or waits in queue.join() (also *inside*     *)
(* Thread.start(), after the OS thread exists but before it is recorded),  *)
(* and a failing Thread.start().                                           *)
(*                                                                         *)
(* PoolMode = "legacy" is the worker-pool protocol of the pinned commit    *)
(* (sentinels only on the path through queue.join()); "fixed" is the       *)
(* protocol after the fix: commit (sentinels and stop on every exit path). *)
(***************************************************************************)
EXTENDS Integers, FiniteSets, Sequences, TLC

CONSTANTS EConfigs,            \* set of [nodes, pred, W, maxerr, fails]
          AllowInterrupt,      \* BOOLEAN: KeyboardInterrupt may reach the coordinator
          AllowInStartIntr,    \* BOOLEAN: ... also inside Thread.start()
          AllowSpawnFail,      \* BOOLEAN: one Thread.start() may raise
          PoolMode,            \* "legacy" | "fixed"
          MaxW                 \* bound on W over all configurations (for the fairness quantifier)

VARIABLES ecfg,     \* the configuration (chosen initially, constant)
          q,        \* bag of queued items: [Nodes \cup {0} -> Nat]; 0 is the DONE sentinel
          unf,      \* Queue.unfinished_tasks
          rem,      \* remaining_pred_count_mapping
          stop, errc, first,
          rlock, flock,      \* remaining_pred_count_lock / failure_lock: 0 = free, w = held by worker w
          wpc, item, todo, cur,   \* per worker: program counter, dequeued item, successors still to walk, current successor
          active,   \* workers whose OS thread exists
          recorded, \* workers appended to the `workers` list (these are joined)
          exited,   \* workers whose thread function returned
          cpc, ci,  \* coordinator program counter and loop index
          kb,       \* "none" | "raised" (KeyboardInterrupt) | "spawnerr"
          outcome,  \* "none" | "returned" | "raised" | "interrupted" | "spawnerr"
          \* history variables (do not influence behaviour)
          nst,      \* per node: "idle" | "run" | "failing" | "failed" | "ok"
          begun,    \* per node: number of times fn(node) was entered
          stopAbs, lateS, lateMaxS, intrAbs

vars == <<ecfg, q, unf, rem, stop, errc, first, rlock, flock, wpc, item, todo, cur, active,
          recorded, exited, cpc, ci, kb, outcome, nst, begun, stopAbs, lateS, lateMaxS, intrAbs>>

Nodes == ecfg.nodes
Pred(n) == ecfg.pred[n]
Succ(n) == {m \in Nodes : n \in Pred(m)}
NW == ecfg.W
Workers == 1..NW
Sources == {n \in Nodes : Pred(n) = {}}
Single == {n \in Nodes : Cardinality(Pred(n)) = 1}
DONE == 0
Busy == {w \in Workers : wpc[w] \in {"end", "facq", "f1", "f2", "f3", "frel"}}   \* fn(node) entered, failure not yet registered
OccupiedN == {n \in Nodes : nst[n] \in {"run", "failing"}}

Init ==
  /\ ecfg \in EConfigs
  /\ q = [x \in Nodes \cup {DONE} |-> IF x \in Sources THEN 1 ELSE 0]
  /\ unf = Cardinality(Sources)
  /\ rem = [n \in Nodes |-> Cardinality(Pred(n))]
  /\ stop = FALSE /\ errc = 0 /\ first = 0
  /\ rlock = 0 /\ flock = 0
  /\ wpc = [w \in Workers |-> "off"]
  /\ item = [w \in Workers |-> -1]
  /\ todo = [w \in Workers |-> {}]
  /\ cur = [w \in Workers |-> -1]
  /\ active = {} /\ recorded = {} /\ exited = {}
  /\ cpc = "spawn" /\ ci = 1
  /\ kb = "none" /\ outcome = "none"
  /\ nst = [n \in Nodes |-> "idle"]
  /\ begun = [n \in Nodes |-> 0]
  /\ stopAbs = FALSE /\ lateS = 0 /\ lateMaxS = 0 /\ intrAbs = FALSE

Put(x) == q' = [q EXCEPT ![x] = @ + 1] /\ unf' = unf + 1

\* ---- worker w -------------------------------------------------------------
WUnch == UNCHANGED <<ecfg, active, recorded, cpc, ci, kb, outcome>>

WGet(w) ==       \* item = queue.get()
  /\ wpc[w] = "get"
  /\ \E x \in Nodes \cup {DONE} :
       /\ q[x] > 0
       /\ q' = [q EXCEPT ![x] = @ - 1]
       /\ item' = [item EXCEPT ![w] = x]
       /\ wpc' = [wpc EXCEPT ![w] = IF x = DONE THEN "tdx" ELSE "chk"]
  /\ UNCHANGED <<unf, rem, stop, errc, first, rlock, flock, todo, cur, exited, nst, begun, stopAbs, lateS, lateMaxS, intrAbs>>
  /\ WUnch

WChk(w) ==       \* if stop: return      (read without a lock)
  /\ wpc[w] = "chk"
  /\ wpc' = [wpc EXCEPT ![w] = IF stop THEN "td" ELSE "begin"]
  /\ UNCHANGED <<q, unf, rem, stop, errc, first, rlock, flock, item, todo, cur, exited, nst, begun, stopAbs, lateS, lateMaxS, intrAbs>>
  /\ WUnch

WBegin(w) ==     \* fn(node) is entered
  /\ wpc[w] = "begin"
  /\ nst' = [nst EXCEPT ![item[w]] = "run"]
  /\ begun' = [begun EXCEPT ![item[w]] = @ + 1]
  /\ lateS' = IF stopAbs THEN lateS + 1 ELSE lateS
  /\ wpc' = [wpc EXCEPT ![w] = "end"]
  /\ UNCHANGED <<q, unf, rem, stop, errc, first, rlock, flock, item, todo, cur, exited, stopAbs, lateMaxS, intrAbs>>
  /\ WUnch

WEnd(w) ==       \* fn(node) returns or raises
  /\ wpc[w] = "end"
  /\ IF item[w] \in ecfg.fails
       THEN /\ nst' = [nst EXCEPT ![item[w]] = "failing"]
            /\ wpc' = [wpc EXCEPT ![w] = "facq"]
            /\ UNCHANGED todo
       ELSE /\ nst' = [nst EXCEPT ![item[w]] = "ok"]
            /\ todo' = [todo EXCEPT ![w] = Succ(item[w])]
            /\ wpc' = [wpc EXCEPT ![w] = "loop"]
  /\ UNCHANGED <<q, unf, rem, stop, errc, first, rlock, flock, item, cur, exited, begun, stopAbs, lateS, lateMaxS, intrAbs>>
  /\ WUnch

WFAcq(w) ==      \* with failure_lock:
  /\ wpc[w] = "facq" /\ flock = 0
  /\ flock' = w
  /\ wpc' = [wpc EXCEPT ![w] = "f1"]
  /\ UNCHANGED <<q, unf, rem, stop, errc, first, rlock, item, todo, cur, exited, nst, begun, stopAbs, lateS, lateMaxS, intrAbs>>
  /\ WUnch

WF1(w) ==        \* error_count += 1
  /\ wpc[w] = "f1"
  /\ errc' = errc + 1
  /\ wpc' = [wpc EXCEPT ![w] = "f2"]
  /\ UNCHANGED <<q, unf, rem, stop, first, rlock, flock, item, todo, cur, exited, nst, begun, stopAbs, lateS, lateMaxS, intrAbs>>
  /\ WUnch

WF2(w) ==        \* if not first_node_error: first_node_error = ...
  /\ wpc[w] = "f2"
  /\ first' = IF first = 0 THEN item[w] ELSE first
  /\ wpc' = [wpc EXCEPT ![w] = "f3"]
  /\ UNCHANGED <<q, unf, rem, stop, errc, rlock, flock, item, todo, cur, exited, nst, begun, stopAbs, lateS, lateMaxS, intrAbs>>
  /\ WUnch

WF3(w) ==        \* if max_errors is not None and error_count > max_errors: stop = True
  /\ wpc[w] = "f3"
  /\ LET hit == ecfg.maxerr # -1 /\ errc > ecfg.maxerr IN
       /\ stop' = (stop \/ hit)
       /\ stopAbs' = (stopAbs \/ hit)
       /\ IF ~stopAbs /\ hit
            THEN lateS' = 0 /\ lateMaxS' = NW - Cardinality(OccupiedN)
            ELSE UNCHANGED <<lateS, lateMaxS>>
  /\ nst' = [nst EXCEPT ![item[w]] = "failed"]     \* the failure is registered
  /\ wpc' = [wpc EXCEPT ![w] = "frel"]
  /\ UNCHANGED <<q, unf, rem, errc, first, rlock, flock, item, todo, cur, exited, begun, intrAbs>>
  /\ WUnch

WFRel(w) ==
  /\ wpc[w] = "frel"
  /\ flock' = 0
  /\ wpc' = [wpc EXCEPT ![w] = "td"]
  /\ UNCHANGED <<q, unf, rem, stop, errc, first, rlock, item, todo, cur, exited, nst, begun, stopAbs, lateS, lateMaxS, intrAbs>>
  /\ WUnch

WLoop(w) ==      \* for successor in graph.successors(node):
  /\ wpc[w] = "loop"
  /\ IF todo[w] = {}
       THEN wpc' = [wpc EXCEPT ![w] = "td"] /\ UNCHANGED <<todo, cur>>
       ELSE \E s \in todo[w] :
              /\ todo' = [todo EXCEPT ![w] = @ \ {s}]
              /\ cur' = [cur EXCEPT ![w] = s]
              /\ wpc' = [wpc EXCEPT ![w] = IF s \in Single THEN "put1" ELSE "racq"]
  /\ UNCHANGED <<q, unf, rem, stop, errc, first, rlock, flock, item, exited, nst, begun, stopAbs, lateS, lateMaxS, intrAbs>>
  /\ WUnch

WPut1(w) ==      \* single-parent successor: queue.put(successor)
  /\ wpc[w] = "put1"
  /\ Put(cur[w])
  /\ wpc' = [wpc EXCEPT ![w] = "loop"]
  /\ UNCHANGED <<rem, stop, errc, first, rlock, flock, item, todo, cur, exited, nst, begun, stopAbs, lateS, lateMaxS, intrAbs>>
  /\ WUnch

WRAcq(w) ==      \* with remaining_pred_count_lock:
  /\ wpc[w] = "racq" /\ rlock = 0
  /\ rlock' = w
  /\ wpc' = [wpc EXCEPT ![w] = "dec"]
  /\ UNCHANGED <<q, unf, rem, stop, errc, first, flock, item, todo, cur, exited, nst, begun, stopAbs, lateS, lateMaxS, intrAbs>>
  /\ WUnch

WDec(w) ==       \* remaining_pred_count_mapping[successor] -= 1
  /\ wpc[w] = "dec"
  /\ rem' = [rem EXCEPT ![cur[w]] = @ - 1]
  /\ wpc' = [wpc EXCEPT ![w] = "tst"]
  /\ UNCHANGED <<q, unf, stop, errc, first, rlock, flock, item, todo, cur, exited, nst, begun, stopAbs, lateS, lateMaxS, intrAbs>>
  /\ WUnch

WTst(w) ==       \* if remaining_pred_count_mapping[successor] == 0: queue.put(successor)
  /\ wpc[w] = "tst"
  /\ IF rem[cur[w]] = 0 THEN Put(cur[w]) ELSE UNCHANGED <<q, unf>>
  /\ wpc' = [wpc EXCEPT ![w] = "rrel"]
  /\ UNCHANGED <<rem, stop, errc, first, rlock, flock, item, todo, cur, exited, nst, begun, stopAbs, lateS, lateMaxS, intrAbs>>
  /\ WUnch

WRRel(w) ==
  /\ wpc[w] = "rrel"
  /\ rlock' = 0
  /\ wpc' = [wpc EXCEPT ![w] = "loop"]
  /\ UNCHANGED <<q, unf, rem, stop, errc, first, flock, item, todo, cur, exited, nst, begun, stopAbs, lateS, lateMaxS, intrAbs>>
  /\ WUnch

WTd(w) ==        \* finally: queue.task_done()
  /\ wpc[w] = "td"
  /\ unf' = unf - 1
  /\ wpc' = [wpc EXCEPT ![w] = "get"]
  /\ UNCHANGED <<q, rem, stop, errc, first, rlock, flock, item, todo, cur, exited, nst, begun, stopAbs, lateS, lateMaxS, intrAbs>>
  /\ WUnch

WTdx(w) ==       \* DONE: task_done() and leave the loop
  /\ wpc[w] = "tdx"
  /\ unf' = unf - 1
  /\ wpc' = [wpc EXCEPT ![w] = "exited"]
  /\ exited' = exited \cup {w}
  /\ UNCHANGED <<q, rem, stop, errc, first, rlock, flock, item, todo, cur, nst, begun, stopAbs, lateS, lateMaxS, intrAbs>>
  /\ WUnch

WorkerStep(w) ==
  \/ WGet(w) \/ WChk(w) \/ WBegin(w) \/ WEnd(w) \/ WFAcq(w) \/ WF1(w) \/ WF2(w) \/ WF3(w) \/ WFRel(w)
  \/ WLoop(w) \/ WPut1(w) \/ WRAcq(w) \/ WDec(w) \/ WTst(w) \/ WRRel(w) \/ WTd(w) \/ WTdx(w)

\* ---- the coordinating thread ---------------------------------------------
CUnch == UNCHANGED <<ecfg, rem, errc, first, rlock, flock, item, todo, cur, exited, nst, begun>>
AfterFault == IF PoolMode = "legacy" THEN "jw" ELSE "fstop"   \* where an exception during start-up goes

\* Starting worker ci takes two steps. legacy: Thread.start() (the OS thread exists), then
\* workers.append(...). fixed: workers.append(worker), then worker.start().
Activate == active' = active \cup {ci} /\ wpc' = [wpc EXCEPT ![ci] = "get"] /\ UNCHANGED recorded
Record == recorded' = recorded \cup {ci} /\ UNCHANGED <<active, wpc>>

CSpawnA ==
  /\ cpc = "spawn" /\ ci <= NW
  /\ IF PoolMode = "legacy" THEN Activate ELSE Record
  /\ cpc' = "spawnb"
  /\ UNCHANGED <<q, unf, stop, ci, kb, outcome, stopAbs, lateS, lateMaxS, intrAbs>>
  /\ CUnch

CSpawnB ==
  /\ cpc = "spawnb"
  /\ IF PoolMode = "legacy" THEN Record ELSE Activate
  /\ ci' = ci + 1
  /\ cpc' = "spawn"
  /\ UNCHANGED <<q, unf, stop, kb, outcome, stopAbs, lateS, lateMaxS, intrAbs>>
  /\ CUnch

CSpawnDone ==
  /\ cpc = "spawn" /\ ci > NW
  /\ cpc' = "join"
  /\ UNCHANGED <<q, unf, stop, wpc, active, recorded, ci, kb, outcome, stopAbs, lateS, lateMaxS, intrAbs>>
  /\ CUnch

CSpawnFail ==    \* Thread.start() raises (e.g. "can't start new thread")
  /\ AllowSpawnFail /\ kb = "none"
  /\ IF PoolMode = "legacy" THEN cpc = "spawn" /\ ci <= NW ELSE cpc = "spawnb"
  /\ kb' = "spawnerr"
  /\ cpc' = AfterFault
  /\ UNCHANGED <<q, unf, stop, wpc, active, recorded, ci, outcome, stopAbs, lateS, lateMaxS, intrAbs>>
  /\ CUnch

CInterrupt ==    \* KeyboardInterrupt is raised in the calling thread
  /\ AllowInterrupt /\ kb = "none"
  /\ \/ cpc = "spawn" /\ cpc' = AfterFault
     \/ cpc = "spawnb" /\ (AllowInStartIntr \/ PoolMode = "fixed") /\ cpc' = AfterFault
     \/ cpc = "join" /\ cpc' = "fstop"
  /\ kb' = "raised"
  /\ UNCHANGED <<q, unf, stop, wpc, active, recorded, ci, outcome, stopAbs, lateS, lateMaxS, intrAbs>>
  /\ CUnch

CJoin ==         \* queue.join() returns
  /\ cpc = "join" /\ unf = 0
  /\ cpc' = "fstop"
  /\ UNCHANGED <<q, unf, stop, wpc, active, recorded, ci, kb, outcome, stopAbs, lateS, lateMaxS, intrAbs>>
  /\ CUnch

CFStop ==        \* finally: stop = True
  /\ cpc = "fstop"
  /\ stop' = TRUE
  /\ IF kb = "raised"
       THEN /\ intrAbs' = TRUE /\ stopAbs' = TRUE
            /\ IF stopAbs THEN UNCHANGED <<lateS, lateMaxS>>
                          ELSE lateS' = 0 /\ lateMaxS' = NW - Cardinality(OccupiedN)
       ELSE UNCHANGED <<intrAbs, stopAbs, lateS, lateMaxS>>
  /\ ci' = 1
  /\ cpc' = "fdone"
  /\ UNCHANGED <<q, unf, wpc, active, recorded, kb, outcome>>
  /\ CUnch

\* legacy: one sentinel per requested worker; fixed: one per recorded worker
NSentinels == IF PoolMode = "legacy" THEN NW ELSE Cardinality(recorded)

CFDone ==        \* for ...: queue.put(DONE)
  /\ cpc = "fdone"
  /\ IF ci <= NSentinels
       THEN Put(DONE) /\ ci' = ci + 1 /\ UNCHANGED cpc
       ELSE cpc' = "jw" /\ UNCHANGED <<q, unf, ci>>
  /\ UNCHANGED <<stop, wpc, active, recorded, kb, outcome, stopAbs, lateS, lateMaxS, intrAbs>>
  /\ CUnch

CJoinWorkers ==  \* for worker in workers: worker.join()
  /\ cpc = "jw"
  /\ IF PoolMode = "legacy" THEN recorded \subseteq exited
                            ELSE (recorded \cap active) \subseteq exited    \* if worker.ident is not None
  /\ cpc' = "fin"
  /\ UNCHANGED <<q, unf, stop, wpc, active, recorded, ci, kb, outcome, stopAbs, lateS, lateMaxS, intrAbs>>
  /\ CUnch

CFin ==
  /\ cpc = "fin"
  /\ outcome' = IF kb = "raised" THEN "interrupted"
                ELSE IF kb = "spawnerr" THEN "spawnerr"
                ELSE IF first # 0 THEN "raised" ELSE "returned"
  /\ cpc' = "done"
  /\ UNCHANGED <<q, unf, stop, wpc, active, recorded, ci, kb, stopAbs, lateS, lateMaxS, intrAbs>>
  /\ CUnch

CoordStep == CSpawnA \/ CSpawnB \/ CSpawnDone \/ CJoin \/ CFStop \/ CFDone \/ CJoinWorkers \/ CFin
EnvStep == CSpawnFail \/ CInterrupt

AllDone == cpc = "done" /\ \A w \in Workers : wpc[w] \in {"off", "exited"}
Finished == AllDone /\ UNCHANGED vars

Next == (\E w \in Workers : WorkerStep(w)) \/ CoordStep \/ EnvStep \/ Finished

Fairness == /\ \A w \in 1..MaxW : WF_vars(w \in Workers /\ WorkerStep(w))
            /\ WF_vars(CoordStep)
Spec == Init /\ [][Next]_vars /\ Fairness

\* ---- properties of the engine itself ---------------------------------------
TypeOK ==
  /\ unf \in 0..(Cardinality(Nodes) + 2 * NW + 1)
  /\ \A n \in Nodes : rem[n] \in 0..Cardinality(Pred(n))
  /\ rlock \in 0..NW /\ flock \in 0..NW

\* C04: fn(node) is entered at most once per node; C01: only when all predecessors are ok
OnceOnly == \A n \in Nodes : begun[n] <= 1
DepsOk == \A n \in Nodes : nst[n] # "idle" => \A p \in Pred(n) : nst[p] = "ok"
\* the accounting that makes queue.join() sound: every queued or in-flight item is counted
QueueSum == LET S[X \in SUBSET (Nodes \cup {DONE})] ==
                  IF X = {} THEN 0 ELSE LET x == CHOOSE y \in X : TRUE IN q[x] + S[X \ {x}]
            IN S[Nodes \cup {DONE}]
InFlight == Cardinality({w \in Workers : wpc[w] \notin {"off", "get", "exited"}})
UnfinishedAccounting == unf = QueueSum + InFlight
\* lock discipline
DecUnderLock == \A w \in Workers : wpc[w] \in {"dec", "tst", "rrel"} => rlock = w
FailUnderLock == \A w \in Workers : wpc[w] \in {"f1", "f2", "f3", "frel"} => flock = w
\* C07 / C17: when run ends nothing is running and every thread that exists has exited
CleanAtEnd == cpc = "done" => /\ active \subseteq exited
                              /\ \A w \in Workers : wpc[w] \in {"off", "exited"}
JoinedAtEnd == cpc \in {"fin", "done"} => (recorded \cap active) \subseteq exited
Terminates == <>(cpc = "done")
\* C06: the reported node failed; nothing below a failed node ran
ReportedFailed == outcome = "raised" => first # 0 /\ nst[first] = "failed"
\* C10
WorkersBound == Cardinality(OccupiedN) <= NW
FailBound == ecfg.maxerr # -1 => Cardinality({n \in Nodes : nst[n] \in {"failing", "failed"}}) <= ecfg.maxerr + NW
\* successful runs process every node
AllProcessed == outcome = "returned" => \A n \in Nodes : nst[n] = "ok"

\* ---- refinement of RunAbs ---------------------------------------------------
RECURSIVE AncOf(_)
AncOf(n) == Pred(n) \cup UNION {AncOf(p) : p \in Pred(n)}

RA == INSTANCE RunAbs WITH
  Configs <- {},
  cfg <- [calls |-> Nodes, anc |-> [n \in Nodes |-> AncOf(n)], W |-> NW, maxerr |-> ecfg.maxerr,
          attempts |-> 1, needed |-> Nodes, failn |-> [n \in Nodes |-> IF n \in ecfg.fails THEN 1 ELSE 0]],
  st <- nst,
  att <- [n \in Nodes |-> IF nst[n] = "idle" THEN 0 ELSE 1],
  errors <- Cardinality({n \in Nodes : nst[n] = "failed"}),
  first <- IF first # 0 /\ nst[first] = "failed" THEN first ELSE 0,
  stop <- stopAbs, late <- lateS, lateMax <- lateMaxS, intr <- intrAbs,
  phase <- CASE outcome = "none" -> "running" [] outcome = "spawnerr" -> "running" [] OTHER -> outcome,
  reported <- IF outcome = "raised" THEN first ELSE 0

RefinesRunAbs == RA!InitState /\ [][RA!Step]_(RA!svars)
=============================================================================
