CONSTANTS
  Window = 10
  Zones <- MCZones
  AwareOffsets <- MCOffsets
  NaiveIsLocal = FALSE
SPECIFICATION Spec
INVARIANT DecisionDependsOnInstantsOnly
CHECK_DEADLOCK FALSE
