CONSTANT PConfigs <- MCPConfigs
SPECIFICATION PSpec
INVARIANT ReleasedAfterLastConsumer
CHECK_DEADLOCK FALSE
