------------------------------ MODULE TimeNorm ------------------------------
(***************************************************************************)
(* C18: which stored values are out of date depends only on the *instants* *)
(* the datetimes denote. This module is the decision table of the stale    *)
(* check's time handling (caching._to_naive_utc_time + the comparison in   *)
(* _get_stale_nodes), over                                                 *)
(*   - a time zone with one daylight-saving fall-back (a repeated hour),   *)
(*   - instants on a grid around that transition,                          *)
(*   - representations of an instant: naive local wall time (with `fold`), *)
(*     as the bundled file stores produce and the documentation passes,    *)
(*     or timezone-aware at some UTC offset.                               *)
(* Times are integers (grid steps, e.g. quarter hours).                    *)
(*                                                                         *)
(* NaiveIsLocal = FALSE describes the normalisation as it was before the   *)
(* fix: commit (aware -> naive UTC, naive left alone); TRUE the repaired    *)
(* one (everything converted to UTC, naive read as local with its fold).   *)
(***************************************************************************)
EXTENDS Integers, FiniteSets, TLC

CONSTANTS Window,        \* instants 0..Window
          Zones,         \* set of [t, before, after]: offset `before` for instants < t, `after` from t on
          AwareOffsets,  \* UTC offsets of aware representations
          NaiveIsLocal

Instants == 0..Window
Off(z, i) == IF i < z.t THEN z.before ELSE z.after
Wall(z, i) == i + Off(z, i)
\* fold = 1 exactly for the second pass through a repeated wall time
Fold(z, i) == IF \E j \in (i - 3)..(i - 1) : j + Off(z, j) = Wall(z, i) THEN 1 ELSE 0
Naive(z, i) == [kind |-> "naive", wall |-> Wall(z, i), fold |-> Fold(z, i), off |-> 0]
Aware(i, o) == [kind |-> "aware", wall |-> i + o, fold |-> 0, off |-> o]
None == [kind |-> "none", wall |-> 0, fold |-> 0, off |-> 0]
Reps(z, i) == {Naive(z, i)} \cup {Aware(i, o) : o \in AwareOffsets}

\* the instant a representation denotes (what the property says matters)
Cands(z, w) == {j \in (0 - 3)..(Window + 3) : j + Off(z, j) = w}
MinOf(S) == CHOOSE x \in S : \A y \in S : x <= y
MaxOf(S) == CHOOSE x \in S : \A y \in S : x >= y
InstantOf(z, r) ==
  IF r.kind = "aware" THEN r.wall - r.off
  ELSE LET C == Cands(z, r.wall) IN IF r.fold = 1 THEN MaxOf(C) ELSE MinOf(C)

\* what the code compares
Norm(z, r) ==
  IF r.kind = "aware" THEN r.wall - r.off
  ELSE IF NaiveIsLocal THEN InstantOf(z, r) ELSE r.wall

Max2(a, b) == IF a >= b THEN a ELSE b
\* stale decision for a stored value with modified time `own`, an upstream time `up` and fresh_time `fr` (None allowed for up / fr)
CodeDecision(z, own, up, fr) ==
  LET o == Norm(z, own)
      m1 == IF up.kind = "none" THEN o ELSE Max2(o, Norm(z, up))
      m2 == IF fr.kind = "none" THEN m1 ELSE Max2(m1, Norm(z, fr))
  IN m2 > o
InstantDecision(z, own, up, fr) ==
  LET o == InstantOf(z, own) IN
  (up.kind # "none" /\ InstantOf(z, up) > o) \/ (fr.kind # "none" /\ InstantOf(z, fr) > o)

\* A case: the zone, the instant and representation of the stored value's own modified time, and
\* one other time (an upstream modified time, or fresh_time) with its representation. Only pairs
\* matter: the decision is a disjunction over the other times.
NaiveCode == 999     \* representation code: naive local; any other code is the UTC offset of an aware datetime
RepCodes == {NaiveCode} \cup AwareOffsets
Rep(z, i, k) == IF k = NaiveCode THEN Naive(z, i) ELSE Aware(i, k)

VARIABLES cz, io, ko, ix, kx, mode     \* mode: "up" | "fresh" | "alone"
cvars == <<cz, io, ko, ix, kx, mode>>

Init == /\ cz \in Zones /\ io \in Instants /\ ko \in RepCodes
        /\ ix \in Instants /\ kx \in RepCodes /\ mode \in {"up", "fresh", "alone"}
Next == UNCHANGED cvars
Spec == Init /\ [][Next]_cvars

Own == Rep(cz, io, ko)
Up == IF mode = "up" THEN Rep(cz, ix, kx) ELSE None
Fresh == IF mode = "fresh" THEN Rep(cz, ix, kx) ELSE None

DecisionDependsOnInstantsOnly == CodeDecision(cz, Own, Up, Fresh) = InstantDecision(cz, Own, Up, Fresh)
=============================================================================
