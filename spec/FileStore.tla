----------------------------- MODULE FileStore -----------------------------
(***************************************************************************)
(* The staged write protocol of uberjob's file-backed stores               *)
(* (stores/_file_store.py: staged_write_path / staged_write, used by       *)
(* Json/Pickle/Text/Binary/TouchFileStore) and the register they           *)
(* implement, at the grain of individual file operations:                  *)
(*                                                                         *)
(*    open(staging,"w") -> write* -> close -> replace(staging, target)     *)
(*    on exception: remove(staging)                                        *)
(*                                                                         *)
(* with, at every operation, the possibility that it raises (I/O error,    *)
(* serialisation error between two writes, KeyboardInterrupt) or that the  *)
(* process dies (no clean-up runs). Several writers follow one another, so *)
(* a staging file left by a dead writer meets the next write and read.     *)
(*                                                                         *)
(* File contents are abstract: which write produced them and whether they  *)
(* are complete (every chunk written, file closed, no error on the way).   *)
(*                                                                         *)
(* Guards are named clause lists (as in RunAbs.tla / Caching.tla): they    *)
(* enable the actions here and name what an observed operation trace of    *)
(* the real stores breaks in FileStoreTrace.tla.                           *)
(*                                                                         *)
(* Properties: C11 OldOrNew, MtimeOnlyWithNew, NoStagingAfterException,    *)
(* LeftoverStagingHarmless; C12 ReadReturnsLastWrite, MtimeNoneIffAbsent,  *)
(* MtimeMonotone.                                                          *)
(***************************************************************************)
EXTENDS Integers, Sequences, FiniteSets, TLC

CONSTANT MaxWrites,            \* number of consecutive write() calls explored
         CleanupOnReplaceFailure   \* does the code remove the staging file when the rename itself fails?

Absent == [w |-> 0, complete |-> FALSE]
File(w, c) == [w |-> w, complete |-> c]

VARIABLES target,     \* content of the target path
          staging,    \* content of <path>.STAGING
          tm,         \* modified time of the target as a rank (0 = no file)
          clock,
          pc,         \* "idle" | "begun" | "open" | "closed" | "replaced" | "replacefailed" | "cleaned"
          cur,        \* id of the write() in progress (0 = none)
          clean,      \* no operation of the current write failed so far
          exc,        \* an exception is propagating out of the current write
          last,       \* id of the last write() that returned normally (0 = none)
          outcome,    \* how the last write() ended: "none" | "ok" | "raised" | "died"
          nw          \* write() calls started so far

fvars == <<target, staging, tm, clock, pc, cur, clean, exc, last, outcome, nw>>

InitState ==
  /\ target = Absent /\ staging = Absent /\ tm = 0 /\ clock = 0
  /\ pc = "idle" /\ cur = 0 /\ clean = TRUE /\ exc = FALSE /\ last = 0 /\ outcome = "none" /\ nw = 0

Holds(gs) == \A i \in DOMAIN gs : gs[i][2]
Broken(gs) == {gs[i][1] : i \in {j \in DOMAIN gs : ~gs[j][2]}}

\* ---- guards ------------------------------------------------------------------
BeginG == << <<"begin_idle", pc = "idle">> >>
OpenStagingG == <<
  <<"open_in_write", pc = "begun">>,
  <<"open_no_exception", ~exc>> >>
WriteStagingG == << <<"write_to_open_staging", pc = "open">> >>
CloseStagingG == << <<"close_open_staging", pc = "open">> >>
ReplaceG == <<
  <<"replace_after_close", pc = "closed">>,                    \* C11: the file is renamed only once it is complete on disk
  <<"replace_only_complete", staging.complete>>,               \* C11
  <<"replace_not_while_failing", ~exc>> >>                     \* C11
RemoveStagingG == <<
  <<"remove_only_on_exception", exc>> >>
\* the target path itself is never opened for writing, written or removed by a store
TargetUntouchedG == << <<"target_never_written_in_place", FALSE>> >>
EndOkG == <<
  <<"ok_after_replace", pc = "replaced">>,
  <<"ok_new_value_in_place", target = File(cur, TRUE)>>,       \* C11 / C12
  <<"ok_no_staging_left", staging = Absent>> >>
EndRaisedG == <<
  <<"raised_had_exception", exc>>,
  <<"raised_no_staging_left", staging = Absent>>,              \* C11: no staging file after an exception
  <<"raised_target_old_or_new", target = Absent \/ target.complete>> >>

\* ---- effects -----------------------------------------------------------------
BeginE ==
  /\ pc' = "begun" /\ nw' = nw + 1 /\ cur' = nw + 1 /\ clean' = TRUE /\ exc' = FALSE /\ outcome' = "none"
  /\ UNCHANGED <<target, staging, tm, clock, last>>
\* fail = this very operation raised
OpenStagingE(fail) ==
  /\ IF fail THEN exc' = TRUE /\ UNCHANGED <<staging, pc>>
             ELSE staging' = File(cur, FALSE) /\ pc' = "open" /\ UNCHANGED exc      \* "w" truncates whatever was there
  /\ clean' = (clean /\ ~fail)
  /\ UNCHANGED <<target, tm, clock, cur, last, outcome, nw>>
WriteStagingE(fail) ==
  /\ clean' = (clean /\ ~fail) /\ exc' = (exc \/ fail)
  /\ UNCHANGED <<target, staging, tm, clock, pc, cur, last, outcome, nw>>
\* an exception raised by the code between two writes (serialisation error, KeyboardInterrupt)
RaiseE ==
  /\ exc' = TRUE /\ clean' = FALSE
  /\ UNCHANGED <<target, staging, tm, clock, pc, cur, last, outcome, nw>>
\* closing: the staging file is complete iff nothing failed on the way and no exception is unwinding
CloseStagingE(fail) ==
  /\ pc' = "closed"
  /\ staging' = File(staging.w, clean /\ ~exc /\ ~fail)
  /\ clean' = (clean /\ ~fail) /\ exc' = (exc \/ fail)
  /\ UNCHANGED <<target, tm, clock, cur, last, outcome, nw>>
ReplaceE(fail) ==
  /\ IF fail THEN exc' = TRUE /\ pc' = "replacefailed" /\ UNCHANGED <<target, staging, tm, clock>>
             ELSE /\ target' = staging /\ staging' = Absent /\ clock' = clock + 1 /\ tm' = clock + 1
                  /\ pc' = "replaced" /\ UNCHANGED exc
  /\ clean' = (clean /\ ~fail)
  /\ UNCHANGED <<cur, last, outcome, nw>>
RemoveStagingE(fail) ==
  /\ IF fail THEN UNCHANGED <<staging, pc>> ELSE staging' = Absent /\ pc' = "cleaned"
  /\ UNCHANGED <<target, tm, clock, cur, clean, exc, last, outcome, nw>>
EndE(ok) ==
  /\ pc' = "idle" /\ cur' = 0 /\ exc' = FALSE
  /\ outcome' = IF ok THEN "ok" ELSE "raised"
  /\ last' = IF ok THEN cur ELSE last
  /\ UNCHANGED <<target, staging, tm, clock, clean, nw>>
\* the process dies: nothing else of this write happens, no clean-up runs; files stay as they are on disk
DieE ==
  /\ pc' = "idle" /\ cur' = 0 /\ exc' = FALSE /\ outcome' = "died"
  /\ UNCHANGED <<target, staging, tm, clock, clean, last, nw>>

\* ---- actions of the design (the protocol as the code performs it) -----------------
Begin == nw < MaxWrites /\ Holds(BeginG) /\ BeginE
OpenStaging(fail) == Holds(OpenStagingG) /\ OpenStagingE(fail)
WriteStaging(fail) == Holds(WriteStagingG) /\ ~exc /\ WriteStagingE(fail)
RaiseBetweenWrites == pc = "open" /\ ~exc /\ RaiseE
CloseStaging(fail) == Holds(CloseStagingG) /\ CloseStagingE(fail)       \* also runs while an exception unwinds (with-block exit)
Replace(fail) == Holds(ReplaceG) /\ ReplaceE(fail)
\* exception path: the staging file is removed if it exists (whatever a dead predecessor left there too);
\* the with-block has closed the file first. If the rename itself failed the code as written does not
\* clean up (CleanupOnReplaceFailure = FALSE): os.replace is outside the try block.
Cleanup ==
  /\ exc
  /\ pc \in {"begun", "closed"} \/ (pc = "replacefailed" /\ CleanupOnReplaceFailure)
  /\ RemoveStagingE(FALSE)
EndOk == pc = "replaced" /\ ~exc /\ EndE(TRUE)
EndRaised ==
  /\ exc
  /\ pc = "cleaned" \/ (pc = "replacefailed" /\ ~CleanupOnReplaceFailure)
  /\ EndE(FALSE)
Die == pc # "idle" /\ DieE
Done == nw = MaxWrites /\ pc = "idle" /\ UNCHANGED fvars

Next ==
  \/ Begin \/ EndOk \/ EndRaised \/ Die \/ RaiseBetweenWrites \/ Cleanup \/ Done
  \/ \E f \in BOOLEAN : OpenStaging(f) \/ WriteStaging(f) \/ CloseStaging(f) \/ Replace(f)
Spec == InitState /\ [][Next]_fvars

\* ---- properties --------------------------------------------------------------
\* C11: the target holds a complete value of some write, never a truncated or mixed one
OldOrNew == target = Absent \/ target.complete
\* C11: the modified time changes only when a new complete value is put in place
MtimeOnlyWithNew == [][tm' # tm => (target' # target /\ target'.complete)]_fvars
\* C11: when a write fails by exception no staging file is left behind
NoStagingAfterException == outcome = "raised" => staging = Absent
\* C11: a staging file left by a dead process does not disturb later writes and reads
LeftoverStagingHarmless == outcome = "ok" => target = File(last, TRUE) /\ staging = Absent
\* C12: a read returns the last value whose write returned normally, unless a later write got as far as the rename
ReadReturnsLastWrite == (pc = "idle" /\ outcome = "ok") => target.w = last
\* C12
MtimeNoneIffAbsent == (tm = 0) <=> (target = Absent)
MtimeMonotone == [][tm' >= tm]_fvars

InvG == <<
  <<"inv_OldOrNew", OldOrNew>>,
  <<"inv_NoStagingAfterException", NoStagingAfterException>>,
  <<"inv_LeftoverStagingHarmless", LeftoverStagingHarmless>>,
  <<"inv_ReadReturnsLastWrite", ReadReturnsLastWrite>>,
  <<"inv_MtimeNoneIffAbsent", MtimeNoneIffAbsent>> >>
=============================================================================
