---------------------------- MODULE RunAbsTrace ----------------------------
(***************************************************************************)
(* Trace monitor: observable executions of the real `uberjob.run` (call    *)
(* start / end events logged by the plan's own functions, the run outcome) *)
(* are replayed against RunAbs. The monitor is total and deterministic:    *)
(* every event applies the *effect* of the RunAbs action it corresponds to *)
(* and records the names of the RunAbs guard clauses (and invariants) that *)
(* do not hold, so one TLC run validates thousands of traces and names the *)
(* clause each rejected trace violates. A trace is a behaviour of RunAbs   *)
(* iff its set of broken clauses is empty.                                 *)
(***************************************************************************)
EXTENDS RunAbs, Json, IOUtils

Traces == ndJsonDeserialize(IOEnv.TRACE_FILE)
NoConfigs == {}

VARIABLES tid,    \* which trace
          l,      \* next event
          bad,    \* set of <<event index, clause name>>
          lastx,  \* lastx[c] : id of the exception object c's last failed attempt raised
          pend,   \* set of <<thread, call>>: failures the engine has not necessarily registered yet
          prem    \* "none" | "yes" | "no": was a call executing when the KeyboardInterrupt arrived (C17's premise)

tvars == <<cfg, svars, tid, l, bad, lastx, pend, prem>>

Range(s) == {s[i] : i \in DOMAIN s}
CfgOf(r) ==
  LET C == Range(r.calls) IN
  [calls |-> C, anc |-> [c \in C |-> Range(r.anc[c])], W |-> r.W, maxerr |-> r.maxerr,
   attempts |-> r.attempts, needed |-> Range(r.needed), failn |-> [c \in C |-> r.failn[c]]]

Ev == Traces[tid].events

ASSUME TLCSet(1, {})

TInit ==
  /\ tid \in 1..Len(Traces)
  /\ cfg = CfgOf(Traces[tid])
  /\ InitState
  /\ l = 1 /\ bad = {} /\ lastx = [c \in Range(Traces[tid].calls) |-> -2]
  /\ pend = {} /\ prem = "none"

\* clauses broken after an interrupt that arrived while no call was executing are outside C17's
\* premise; they are reported under a different name
Tag(x) == IF prem = "no" THEN "offpremise_" \o x ELSE x
Note(gs) == bad' = bad \cup {<<l, Tag(x)>> : x \in Broken(gs)} \cup {<<l, Tag(x)>> : x \in Broken(InvG)'}
NoteOnly(x) == bad' = bad \cup {<<l, Tag(x)>>}

\* The engine registers a failure (error count, stop flag) some time after the call ended and
\* before the same worker thread does anything else. That step is not observable, so the monitor
\* performs Register at the latest moment it can have happened: just before the same thread's next
\* start, and before the run's outcome. (Any earlier placement only makes `stop` true earlier; the
\* latest placement is therefore the one that never rejects a correct execution.)
MustRegister ==
  IF l > Len(Ev) THEN {}
  ELSE LET e == Ev[l] IN
       IF e.e = "start" THEN {p \in pend : p[1] = e.t}
       ELSE IF e.e \in {"return", "raise", "kbint"} THEN pend
       ELSE {}

TRegister ==
  /\ MustRegister # {}
  /\ UNCHANGED <<tid, cfg, l, lastx, prem>>
  /\ LET p == CHOOSE x \in MustRegister : \A y \in MustRegister : x[2] <= y[2] IN
       /\ RegisterE(p[2]) /\ Note(RegisterG(p[2]))
       /\ pend' = pend \ {p}

TStep ==
  /\ l <= Len(Ev)
  /\ MustRegister = {}
  /\ l' = l + 1
  /\ UNCHANGED <<tid, cfg>>
  /\ (Ev[l].e # "interrupt" => prem' = prem)
  /\ LET e == Ev[l]
         n == e.n
     IN
     IF e.e \in {"start", "endok", "endfail"} /\ n \notin Calls
       THEN NoteOnly("event_for_unknown_call") /\ UNCHANGED <<svars, lastx, pend>>
     ELSE CASE e.e = "start" /\ e.a = 1 ->
                 StartE(n) /\ Note(StartG(n)) /\ UNCHANGED <<lastx, pend>>
            [] e.e = "start" /\ e.a > 1 ->
                 RetryE(n) /\ Note(RetryG(n) \o << <<"retry_attempt_number", e.a = att[n] + 1>> >>) /\ UNCHANGED <<lastx, pend>>
            [] e.e = "endok" ->
                 EndOkE(n) /\ Note(EndOkG(n) \o << <<"end_attempt_number", e.a = att[n]>> >>) /\ UNCHANGED <<lastx, pend>>
            [] e.e = "endfail" ->
                 /\ IF att[n] < Attempts THEN AttemptFailE(n) /\ pend' = pend
                                         ELSE EndFailE(n) /\ pend' = pend \cup {<<e.t, n>>}
                 /\ Note(AttemptFailG(n) \o << <<"end_attempt_number", e.a = att[n]>> >>)
                 /\ lastx' = [lastx EXCEPT ![n] = e.x]
            [] e.e = "interrupt" ->
                 /\ prem' = IF \E c \in Calls : st[c] \in {"run", "between"} THEN "yes" ELSE "no"
                 /\ UNCHANGED <<svars, lastx, bad, pend>>
            [] e.e = "spawnerr" ->   \* Thread.start() raised and that error propagated out of run
                 AbortE /\ Note(AbortG) /\ UNCHANGED <<lastx, pend>>
            [] e.e = "settled" ->
                 \* e.n = worker threads that were not inside queue.get when the stop flag had been set and
                 \* the calling thread blocked: a worker waiting in get re-checks the flag after it returns,
                 \* so only the others can still be committed to a call
                 \* (a call whose failure the monitor has not registered yet - it does so at the latest possible
                 \* moment - does not occupy its worker for certain: that worker may have moved on long ago)
                 LET busy == Cardinality({c \in Calls : st[c] \in {"run", "between"}}) IN
                 InterruptEB(Min(W - busy, IF e.n > busy THEN e.n - busy ELSE 0)) /\ Note(<< <<"interrupt_once", ~intr>> >>) /\ UNCHANGED <<lastx, pend>>
            [] e.e = "return" ->
                 ReturnE /\ Note(ReturnG) /\ UNCHANGED <<lastx, pend>>
            [] e.e = "raise" ->
                 /\ RaiseE(IF n \in Calls THEN n ELSE 0)
                 /\ Note(RaiseG(n) \o << <<"raise_cause_is_last_exception", n \in Calls /\ e.x = lastx[n] /\ e.x >= 0>> >>)
                 /\ UNCHANGED <<lastx, pend>>
            [] e.e = "kbint" ->
                 KbIntE /\ Note(KbIntG) /\ UNCHANGED <<lastx, pend>>
            [] e.e = "post" ->   \* after run returned: n = threads still alive, a = events logged afterwards
                 /\ UNCHANGED <<svars, lastx, pend>>
                 /\ Note(<< <<"post_threads_exited", e.n = 0>>, <<"post_no_late_events", e.a = 0>> >>)
            [] OTHER ->
                 NoteOnly("outcome_" \o e.e) /\ UNCHANGED <<svars, lastx, pend>>

TDone ==
  /\ l = Len(Ev) + 1
  /\ IF bad = {} THEN TLCSet(1, TLCGet(1) \cup {tid})
                 ELSE \A b \in bad : PrintT(<<"REJ", tid, b[1], b[2]>>)
  /\ l' = l + 1
  /\ UNCHANGED <<cfg, svars, tid, bad, lastx, pend, prem>>

TNext == TRegister \/ TStep \/ TDone
TSpec == TInit /\ [][TNext]_tvars

Post == PrintT(<<"ACCEPTED", TLCGet(1)>>)
=============================================================================
