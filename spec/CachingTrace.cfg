CONSTANT Configs <- NoConfigs
CONSTANT MaxClock = 0
SPECIFICATION TSpec
POSTCONDITION Post
CHECK_DEADLOCK FALSE
