--------------------------- MODULE MountedTrace ---------------------------
(***************************************************************************)
(* Monitor: operations on a real MountedStore subclass (several threads),  *)
(* every step logged under one lock together with its effect, replayed     *)
(* against Mounted.tla. Total: each event applies the effect of the action *)
(* it corresponds to and records the names of the clauses that do not hold.*)
(***************************************************************************)
EXTENDS Mounted, Json, IOUtils, TLC

Traces == ndJsonDeserialize(IOEnv.TRACE_FILE)
VARIABLES tid, l, bad
tvars == <<mvars, tid, l, bad>>
Ev == Traces[tid].events
ASSUME TLCSet(1, {})

TInit == tid \in 1..Len(Traces) /\ l = 1 /\ bad = {} /\ MInit

Holds(gs) == \A i \in DOMAIN gs : gs[i][2]
Broken(gs) == {gs[i][1] : i \in {j \in DOMAIN gs : ~gs[j][2]}}
Note(gs) == bad' = bad \cup {<<l, x>> : x \in Broken(gs)}

TStep ==
  /\ l <= Len(Ev)
  /\ l' = l + 1 /\ UNCHANGED tid
  /\ LET e == Ev[l]
         o == e.o
     IN
     IF o \notin Ops THEN bad' = bad \cup {<<l, "unknown_operation">>} /\ UNCHANGED mvars
     ELSE CASE e.e = "begin" ->
            /\ kind' = [kind EXCEPT ![o] = e.k] /\ val' = [val EXCEPT ![o] = e.v]
            /\ scratch' = [scratch EXCEPT ![o] = e.dir] /\ pc' = [pc EXCEPT ![o] = "scratch"]
            /\ nextdir' = nextdir + 1 /\ UNCHANGED <<remote, local, published, result>>
            /\ Note(<< <<"begin_fresh_operation", pc[o] = "idle">>,
                       <<"own_scratch", \A o2 \in Ops \ {o} : scratch[o2] # e.dir>> >>)
       [] e.e = "innerwrite" ->
            /\ local' = [local EXCEPT ![o] = e.v] /\ pc' = [pc EXCEPT ![o] = "staged"]
            /\ UNCHANGED <<remote, kind, val, scratch, nextdir, published, result>>
            /\ Note(<< <<"inner_write_in_scratch", pc[o] = "scratch" /\ kind[o] = "write">>,
                       <<"inner_write_of_the_value", e.v = val[o]>> >>)
       [] e.e = "publish" ->
            /\ remote' = e.v /\ published' = Append(published, e.v) /\ pc' = [pc EXCEPT ![o] = "published"]
            /\ UNCHANGED <<kind, val, scratch, local, nextdir, result>>
            /\ Note(<< <<"publish_after_inner_write", pc[o] = "staged" /\ kind[o] = "write">>,
                       <<"publishes_the_written_value", e.v = val[o]>> >>)
       [] e.e = "fetch" ->
            /\ local' = [local EXCEPT ![o] = e.v] /\ pc' = [pc EXCEPT ![o] = "fetched"]
            /\ UNCHANGED <<remote, kind, val, scratch, nextdir, published, result>>
            /\ Note(<< <<"fetch_in_scratch", pc[o] = "scratch" /\ kind[o] = "read">>,
                       <<"fetches_current_remote", e.v = remote /\ remote # 0>> >>)
       [] e.e = "innerread" ->
            /\ result' = [result EXCEPT ![o] = e.v] /\ pc' = [pc EXCEPT ![o] = "published"]
            /\ UNCHANGED <<remote, kind, val, scratch, local, nextdir, published>>
            /\ Note(<< <<"inner_read_after_fetch", pc[o] = "fetched">>,
                       <<"reads_what_was_fetched", e.v = local[o]>> >>)
       [] e.e = "fail" ->
            /\ pc' = [pc EXCEPT ![o] = "failed"]
            /\ UNCHANGED <<remote, kind, val, scratch, local, nextdir, published, result>>
            /\ bad' = bad
       [] e.e = "end" ->
            \* e.raised: the operation raised; e.gone: its scratch directory no longer exists; e.v: what a read returned
            /\ scratch' = [scratch EXCEPT ![o] = 0] /\ local' = [local EXCEPT ![o] = 0]
            /\ pc' = [pc EXCEPT ![o] = IF e.raised THEN "raised" ELSE "done"]
            /\ UNCHANGED <<remote, kind, val, nextdir, published, result>>
            /\ Note(<< <<"no_scratch_left", e.gone>>,
                       <<"raises_iff_a_step_failed", e.raised = (pc[o] # "published")>>,
                       <<"write_done_means_published", (kind[o] = "write" /\ ~e.raised) => pc[o] = "published">>,
                       <<"read_returns_a_published_value", (kind[o] = "read" /\ ~e.raised) => (e.v = result[o] /\ \E i \in 1..Len(published) : published[i] = e.v)>>,
                       <<"remote_is_last_published", RemoteIsLastPublished>> >>)
       [] OTHER -> bad' = bad \cup {<<l, "unknown_event">>} /\ UNCHANGED mvars

TDone ==
  /\ l = Len(Ev) + 1
  /\ IF bad = {} THEN TLCSet(1, TLCGet(1) \cup {tid})
                 ELSE \A b \in bad : PrintT(<<"REJ", tid, b[1], b[2]>>)
  /\ l' = l + 1 /\ UNCHANGED <<mvars, tid, bad>>

TNext == TStep \/ TDone
TSpec == TInit /\ [][TNext]_tvars
Post == PrintT(<<"ACCEPTED", TLCGet(1)>>)
=============================================================================
