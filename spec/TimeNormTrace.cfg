CONSTANTS
  Window = 0
  Zones <- NoZones
  AwareOffsets <- NoOffsets
  NaiveIsLocal = TRUE
SPECIFICATION TSpec
POSTCONDITION Post
CHECK_DEADLOCK FALSE
