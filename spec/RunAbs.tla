------------------------------- MODULE RunAbs -------------------------------
(***************************************************************************)
(* What one `uberjob.run` of a (pruned, physical) plan means at the level  *)
(* a user can observe: calls start and end, possibly several attempts, the *)
(* run returns, raises CallError or propagates KeyboardInterrupt.          *)
(*                                                                         *)
(* The guards of every action are written as *named clause lists* so that  *)
(* the same definitions serve (a) as the enabling condition of the action  *)
(* in model checking (Engine.tla refines this module) and (b) as a monitor *)
(* in RunAbsTrace.tla that names the clause an observed execution of the   *)
(* real code violates.                                                     *)
(*                                                                         *)
(* Properties carried: C01 DepsFirst, C04 AtMostOnce / ExactlyNeeded, C06  *)
(* Containment / RaiseNamesFailure / FirstWhenSerial, C07 Quiescent /      *)
(* Terminates, C10 WorkersBound / FailBound / SerialFailCount / retry,     *)
(* C17 late-start budget after an interrupt.                               *)
(***************************************************************************)
EXTENDS Integers, FiniteSets, Sequences, TLC

CONSTANT Configs      \* set of configuration records explored (one per initial state)

\* The configuration of a run is chosen in the initial state and never changes. It is a variable
\* rather than a set of CONSTANTS so that one TLC run covers many plans and so that the trace
\* specification can take it from each recorded execution.
VARIABLE cfg          \* [calls, anc, W, maxerr, attempts, needed, failn]

Calls    == cfg.calls     \* set of call ids (positive integers)
Anc      == cfg.anc       \* Anc[c] : calls c transitively depends on (any edge kind, through literals)
W        == cfg.W         \* max_workers >= 1
MaxErr   == cfg.maxerr    \* max_errors; -1 encodes None (unlimited)
Attempts == cfg.attempts  \* retry: attempts per call >= 1
Needed   == cfg.needed    \* calls the requested output transitively needs
FailN    == cfg.failn     \* FailN[c] : number of leading attempts of c that raise (>= Attempts: c fails)

VARIABLES st,         \* st[c] \in {"idle","run","between","failing","ok","failed"}
                      \*   "between": an attempt failed and will be retried (worker still busy)
                      \*   "failing": the call ended with an exception that the engine has not
                      \*              yet registered (error count / stop flag); worker still busy
          att,        \* att[c] : attempts started so far
          errors,     \* number of registered failures
          first,      \* first call that failed (0 = none)
          stop,       \* no new work should be dispatched
          late,       \* calls started since stop became true
          lateMax,    \* how many such late starts the thread pool may still commit
          intr,       \* a KeyboardInterrupt reached the calling thread
          phase,      \* "running" | "returned" | "raised" | "interrupted" | "aborted" (environment fault)
          reported    \* the call named by the raised CallError (0 = none)

svars == <<st, att, errors, first, stop, late, lateMax, intr, phase, reported>>
vars == <<cfg, svars>>

Occupied == {c \in Calls : st[c] \in {"run", "between", "failing"}}
Failures == errors + Cardinality({c \in Calls : st[c] = "failing"})
WillFail(c) == FailN[c] >= Attempts
Eligible == {c \in Needed : WillFail(c) /\ \A p \in Anc[c] : ~WillFail(p)}
Min(a, b) == IF a < b THEN a ELSE b

TypeOK ==
  /\ st \in [Calls -> {"idle", "run", "between", "failing", "ok", "failed"}]
  /\ att \in [Calls -> 0..Attempts]
  /\ errors \in 0..Cardinality(Calls)
  /\ first \in Calls \cup {0}
  /\ stop \in BOOLEAN /\ intr \in BOOLEAN
  /\ late \in 0..(W + 1) /\ lateMax \in 0..W
  /\ phase \in {"running", "returned", "raised", "interrupted", "aborted"}
  /\ reported \in Calls \cup {0}

InitState ==
  /\ st = [c \in Calls |-> "idle"]
  /\ att = [c \in Calls |-> 0]
  /\ errors = 0 /\ first = 0
  /\ stop = FALSE /\ late = 0 /\ lateMax = 0
  /\ intr = FALSE
  /\ phase = "running"
  /\ reported = 0

Init == cfg \in Configs /\ InitState

\* ---- clause lists --------------------------------------------------------
Holds(gs) == \A i \in DOMAIN gs : gs[i][2]
Broken(gs) == {gs[i][1] : i \in {j \in DOMAIN gs : ~gs[j][2]}}

StartG(c) == <<
  <<"start_while_running_phase", phase = "running">>,          \* C07: nothing starts after run ended
  <<"start_once", st[c] = "idle">>,                            \* C04
  <<"start_needed", c \in Needed>>,                             \* C04 (pruning)
  <<"start_deps_ok", \A p \in Anc[c] : st[p] \in {"ok", "failed", "between", "failing"}>>,   \* C01
  <<"start_no_failed_ancestor", \A p \in Anc[c] : st[p] \notin {"failed", "between", "failing"}>>,  \* C06
  <<"start_workers", Cardinality(Occupied) < W>>,               \* C10
  <<"start_not_stopped_err", (stop /\ ~intr) => late < lateMax>>,   \* C10 max_errors
  <<"start_not_stopped_intr", (stop /\ intr) => late < lateMax>> >> \* C17

RetryG(c) == <<
  <<"retry_after_failed_attempt", st[c] = "between">>,
  <<"retry_within_attempts", att[c] < Attempts>> >>

EndOkG(c) == <<
  <<"end_of_running", st[c] = "run">>,
  <<"endok_oracle", att[c] > FailN[c]>> >>

AttemptFailG(c) == <<
  <<"end_of_running", st[c] = "run">>,
  <<"fail_oracle", att[c] <= FailN[c]>> >>

ReturnG == <<
  <<"ret_running_phase", phase = "running">>,
  <<"ret_quiescent", Occupied = {}>>,                           \* C07
  <<"ret_not_interrupted", ~intr>>,                             \* C17
  <<"ret_no_failure", errors = 0>>,                             \* C06
  <<"ret_needed_all_ok", \A c \in Needed : st[c] = "ok">>,       \* C04
  <<"ret_nothing_unneeded", \A c \in Calls \ Needed : st[c] = "idle">> >>   \* C04

RaiseG(c) == <<
  <<"raise_running_phase", phase = "running">>,
  <<"raise_quiescent", Occupied = {}>>,                         \* C07
  <<"raise_not_interrupted", ~intr>>,
  <<"raise_names_failed_call", c \in Calls /\ st[c] = "failed">>,   \* C06
  <<"raise_first_when_serial", W = 1 => c = first>>,             \* C06
  <<"raise_only_when_done_or_stopped",                           \* C10 (max_errors=None runs everything)
      stop \/ \A d \in Needed : st[d] = "idle" => \E p \in Anc[d] : st[p] # "ok">> >>

KbIntG == <<
  <<"kb_running_phase", phase = "running">>,
  <<"kb_was_interrupted", intr>>,
  <<"kb_quiescent", Occupied = {}>> >>                           \* C17: in-flight calls completed

\* ---- effects -------------------------------------------------------------
StartE(c) ==
  /\ st' = [st EXCEPT ![c] = "run"]
  /\ att' = [att EXCEPT ![c] = 1]
  /\ late' = IF stop THEN late + 1 ELSE late
  /\ UNCHANGED <<errors, first, stop, lateMax, intr, phase, reported>>

RetryE(c) ==
  /\ st' = [st EXCEPT ![c] = "run"]
  /\ att' = [att EXCEPT ![c] = @ + 1]
  /\ UNCHANGED <<errors, first, stop, late, lateMax, intr, phase, reported>>

EndOkE(c) ==
  /\ st' = [st EXCEPT ![c] = "ok"]
  /\ UNCHANGED <<att, errors, first, stop, late, lateMax, intr, phase, reported>>

\* a failed attempt that will be retried
AttemptFailE(c) ==
  /\ st' = [st EXCEPT ![c] = "between"]
  /\ UNCHANGED <<att, errors, first, stop, late, lateMax, intr, phase, reported>>

\* the last allowed attempt failed (or a non-retryable exception): the call has failed, but the
\* engine registers the failure (error count, first error, stop flag) in a later, separate step
EndFailE(c) ==
  /\ st' = [st EXCEPT ![c] = "failing"]
  /\ UNCHANGED <<att, errors, first, stop, late, lateMax, intr, phase, reported>>

RegisterG(c) == << <<"register_failing", st[c] = "failing">> >>
RegisterE(c) ==
  LET e == errors + 1
      newstop == MaxErr # -1 /\ e > MaxErr
  IN /\ st' = [st EXCEPT ![c] = "failed"]
     /\ errors' = e
     /\ first' = IF first = 0 THEN c ELSE first
     /\ stop' = (stop \/ newstop)
     /\ IF ~stop /\ newstop
          THEN late' = 0 /\ lateMax' = W - Cardinality(Occupied)   \* idle workers may have committed to one call each
          ELSE UNCHANGED <<late, lateMax>>
     /\ UNCHANGED <<att, intr, phase, reported>>

InterruptEB(budget) ==
  /\ intr' = TRUE /\ stop' = TRUE
  /\ IF stop THEN UNCHANGED <<late, lateMax>>      \* already stopping: no new budget
             ELSE late' = 0 /\ lateMax' = budget
  /\ UNCHANGED <<st, att, errors, first, phase, reported>>
\* idle workers may have committed to one call each
InterruptE == InterruptEB(W - Cardinality(Occupied))

ReturnE == phase' = "returned" /\ UNCHANGED <<st, att, errors, first, stop, late, lateMax, intr, reported>>
RaiseE(c) == phase' = "raised" /\ reported' = c /\ UNCHANGED <<st, att, errors, first, stop, late, lateMax, intr>>
\* environment fault: a worker thread could not be started; that error propagates out of run
AbortG == <<
  <<"abort_running_phase", phase = "running">>,
  <<"abort_quiescent", Occupied = {}>> >>
AbortE == phase' = "aborted" /\ UNCHANGED <<st, att, errors, first, stop, late, lateMax, intr, reported>>

KbIntE == phase' = "interrupted" /\ UNCHANGED <<st, att, errors, first, stop, late, lateMax, intr, reported>>

\* ---- actions -------------------------------------------------------------
Start(c) == Holds(StartG(c)) /\ StartE(c)
Retry(c) == Holds(RetryG(c)) /\ RetryE(c)
EndOk(c) == Holds(EndOkG(c)) /\ EndOkE(c)
AttemptFail(c) == Holds(AttemptFailG(c)) /\ att[c] < Attempts /\ AttemptFailE(c)
EndFail(c) == Holds(AttemptFailG(c)) /\ att[c] >= Attempts /\ EndFailE(c)
Register(c) == Holds(RegisterG(c)) /\ RegisterE(c)
Interrupt == phase = "running" /\ ~intr /\ InterruptE
Return == Holds(ReturnG) /\ ReturnE
Raise(c) == Holds(RaiseG(c)) /\ RaiseE(c)
KbInt == Holds(KbIntG) /\ KbIntE
Finished == phase # "running" /\ UNCHANGED svars

Step ==
  \/ \E c \in Calls : Start(c) \/ Retry(c) \/ EndOk(c) \/ AttemptFail(c) \/ EndFail(c) \/ Register(c) \/ Raise(c)
  \/ Interrupt \/ Return \/ KbInt \/ Finished
Next == Step /\ cfg' = cfg

Progress ==
  /\ cfg' = cfg
  /\ \/ \E c \in Calls : Start(c) \/ Retry(c) \/ EndOk(c) \/ AttemptFail(c) \/ EndFail(c) \/ Register(c) \/ Raise(c)
     \/ Return \/ KbInt

Spec == Init /\ [][Next]_vars /\ WF_vars(Progress)
SafeSpec == Init /\ [][Next]_vars

\* ---- properties ----------------------------------------------------------
\* C01: a call starts only after everything it depends on finished successfully
DepsFirst == [][\A c \in Calls : (st[c] = "idle" /\ st'[c] = "run") => \A p \in Anc[c] : st[p] = "ok"]_vars
\* C04: terminal statuses are final, attempts bounded
AtMostOnce == [][\A c \in Calls : (st[c] \in {"ok", "failed"} => st'[c] = st[c]) /\ (st[c] = "failing" => st'[c] \in {"failing", "failed"}) /\ att'[c] >= att[c]]_vars
AttemptsBounded == \A c \in Calls : att[c] <= Attempts
ExactlyNeeded == phase = "returned" => /\ \A c \in Needed : st[c] = "ok" /\ att[c] >= 1
                                       /\ \A c \in Calls \ Needed : st[c] = "idle"
\* C06
Containment == \A c \in Calls : (\E p \in Anc[c] : st[p] \in {"failed", "between", "failing"}) => st[c] = "idle"
RaiseNamesFailure == phase = "raised" => reported \in Calls /\ st[reported] = "failed" /\ (W = 1 => reported = first)
NoValueOnFailure == phase = "returned" => errors = 0
\* C07
Quiescent == phase # "running" => Occupied = {}
Terminates == <>(phase # "running")
\* C10
WorkersBound == Cardinality(Occupied) <= W
FailBound == MaxErr # -1 => Failures <= MaxErr + W
SerialFailCount == (phase = "raised" /\ W = 1 /\ MaxErr # -1) => errors = Min(MaxErr + 1, Cardinality(Eligible))
UnlimitedRunsAll == (phase = "raised" /\ MaxErr = -1) =>
                      \A c \in Needed : (\A p \in Anc[c] : st[p] = "ok") => st[c] \in {"ok", "failed"}
RetrySuccessCounts == \A c \in Calls : (st[c] = "ok" => att[c] = FailN[c] + 1) /\ (st[c] \in {"failed", "failing"} => att[c] <= Attempts)
\* C17
InterruptPropagates == intr => phase \in {"running", "interrupted"}
LateBounded == late <= lateMax

\* all state invariants as a clause list (used by the trace monitor)
InvG == <<
  <<"inv_AttemptsBounded", AttemptsBounded>>, <<"inv_ExactlyNeeded", ExactlyNeeded>>,
  <<"inv_Containment", Containment>>, <<"inv_RaiseNamesFailure", RaiseNamesFailure>>,
  <<"inv_NoValueOnFailure", NoValueOnFailure>>, <<"inv_Quiescent", Quiescent>>,
  <<"inv_WorkersBound", WorkersBound>>, <<"inv_FailBound", FailBound>>,
  <<"inv_SerialFailCount", SerialFailCount>>, <<"inv_UnlimitedRunsAll", UnlimitedRunsAll>>,
  <<"inv_RetrySuccessCounts", RetrySuccessCounts>>, <<"inv_InterruptPropagates", InterruptPropagates>>,
  <<"inv_LateBounded", LateBounded>> >>
=============================================================================
