CONSTANTS
  MaxWrites = 3
  CleanupOnReplaceFailure = FALSE
SPECIFICATION Spec
INVARIANT OldOrNew
INVARIANT NoStagingAfterException
INVARIANT LeftoverStagingHarmless
INVARIANT ReadReturnsLastWrite
INVARIANT MtimeNoneIffAbsent
PROPERTY MtimeOnlyWithNew
PROPERTY MtimeMonotone
