CONSTANTS
  NAtoms = 0
  NNodes = 0
  NodeVal <- TraceNodeVal
  MaxDepth = 0
  MaxWidth = 0
SPECIFICATION TSpec
POSTCONDITION Post
CHECK_DEADLOCK FALSE
