CONSTANTS
  MaxPlans = 2
  MaxRegs = 2
  MaxNodes = 3
  MaxSteps = 7
SPECIFICATION SpecA
VIEW View
INVARIANT TypeOK
PROPERTY FrameCondition
CHECK_DEADLOCK FALSE
