--------------------------- MODULE SourcesTrace ---------------------------
EXTENDS Sources, Sequences, Naturals, Json, IOUtils
Traces == ndJsonDeserialize(IOEnv.TRACE_FILE)
VARIABLES tid, l, bad
tvars == <<tid, l, bad>>
Ev == Traces[tid].events
ASSUME TLCSet(1, {})
TInit == tid \in 1..Len(Traces) /\ l = 1 /\ bad = {}
TStep ==
  /\ l <= Len(Ev) /\ l' = l + 1 /\ UNCHANGED tid
  /\ LET e == Ev[l] IN
       bad' = bad \cup (IF e.k \in Kinds /\ e.s \in States /\ e.op \in Operations
                          THEN (IF e.outcome = Outcome(e.k, e.s, e.op) THEN {} ELSE {<<l, "outcome_differs_from_table">>})
                          ELSE {<<l, "unknown_case">>})
TDone ==
  /\ l = Len(Ev) + 1
  /\ IF bad = {} THEN TLCSet(1, TLCGet(1) \cup {tid}) ELSE \A b \in bad : PrintT(<<"REJ", tid, b[1], b[2]>>)
  /\ l' = l + 1 /\ UNCHANGED <<tid, bad>>
TNext == TStep \/ TDone
TSpec == TInit /\ [][TNext]_tvars
Post == PrintT(<<"ACCEPTED", TLCGet(1)>>)
=============================================================================
