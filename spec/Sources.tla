------------------------------ MODULE Sources ------------------------------
(***************************************************************************)
(* The read-only value stores bundled with uberjob (stores/_literal_source,*)
(* _modified_time_source, _path_source) as a decision table: for each kind *)
(* of source, each state of what it points to and each operation, what the *)
(* caller gets. SourcesTrace.tla compares it with the real classes.        *)
(*                                                                         *)
(*   kind      : "literal" | "mtime" | "path_required" | "path_optional"   *)
(*   state     : "set"     - LiteralSource / ModifiedTimeSource built with *)
(*                           a modified time; the path exists              *)
(*               "unset"   - built with modified_time = None; the path is  *)
(*                           missing                                       *)
(*   operation : "read" | "mtime" | "write"                                *)
(*   outcome   : "value"   - the value given to the constructor (the very  *)
(*                           object), resp. the path object itself         *)
(*               "time"    - the modified time given / the file's          *)
(*               "none"    - None                                          *)
(*               "NotImplementedError" | "OSError"                         *)
(***************************************************************************)
EXTENDS TLC

Kinds == {"literal", "mtime", "path_required", "path_optional"}
States == {"set", "unset"}
Operations == {"read", "mtime", "write"}

Outcome(k, s, op) ==
  IF op = "write" THEN "NotImplementedError"                       \* sources are never written by a run
  ELSE IF k = "literal" THEN (IF op = "read" THEN "value" ELSE IF s = "set" THEN "time" ELSE "none")
  ELSE IF k = "mtime" THEN (IF s = "set" THEN "time" ELSE "none")  \* read returns the modified time itself
  ELSE IF k = "path_required" THEN
         (IF op = "read" THEN "value"                              \* the path is handed out without looking
          ELSE IF s = "set" THEN "time" ELSE "OSError")            \* a required path that is missing is an error, not 'nothing stored'
  ELSE \* path_optional
         (IF s = "set" THEN (IF op = "read" THEN "value" ELSE "time")
          ELSE (IF op = "read" THEN "OSError" ELSE "none"))        \* nothing there: no modified time; reading it is an error

\* what this means for a run: a source whose modified time is None counts as out of date and would be
\* "rebuilt" - impossible for a source - unless something the plan depends on writes it first
ASSUME \A k \in Kinds, s \in States : Outcome(k, s, "write") = "NotImplementedError"
ASSUME \A k \in Kinds : Outcome(k, "set", "mtime") = "time"
=============================================================================
