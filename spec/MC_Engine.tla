------------------------------ MODULE MC_Engine ------------------------------
(* Exhaustive configurations for Engine: every DAG on nodes 1..N (edges i -> j with i < j),
   every worker count 1..MaxW, every max_errors in {None, 0, 1}, every set of failing nodes. *)
EXTENDS Engine

CONSTANTS N

NodesN == 1..N
Pairs == {<<i, j>> \in NodesN \X NodesN : i < j}
PredOf(E) == [n \in NodesN |-> {e[1] : e \in {x \in E : x[2] = n}}]

MaxErrsAll == {-1, 0, 1}
MaxErrsZero == {0}

AllConfigs(MaxErrs, FailSets) ==
  {[nodes |-> NodesN, pred |-> PredOf(E), W |-> w, maxerr |-> m, fails |-> F] :
      E \in SUBSET Pairs, w \in 1..MaxW, m \in MaxErrs, F \in FailSets}

ConfigsFull == AllConfigs(MaxErrsAll, SUBSET NodesN)
ConfigsNoFail == AllConfigs(MaxErrsZero, {{}})
ConfigsFewFail == AllConfigs(MaxErrsAll, {F \in SUBSET NodesN : Cardinality(F) <= 1})

\* the 5-node diamond-plus-chain reference plan: 1 -> {2,3} -> 4 -> 5, 1 -> 5
RefPred == (1 :> {} @@ 2 :> {1} @@ 3 :> {1} @@ 4 :> {2, 3} @@ 5 :> {1, 4})
ConfigsRef == {[nodes |-> 1..5, pred |-> RefPred, W |-> MaxW, maxerr |-> m, fails |-> F] :
                  m \in {-1, 0}, F \in {{}, {2}, {2, 3}, {4}}}
=============================================================================
