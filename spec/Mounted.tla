------------------------------ MODULE Mounted ------------------------------
(***************************************************************************)
(* The copy protocol of MountedStore (stores/_mounted_store.py): a store   *)
(* that keeps its value "remotely" and works on it through a local scratch *)
(* file handled by an ordinary file store.                                 *)
(*   write(v): make a scratch directory; inner store writes v to a path in *)
(*             it; copy_from_local(path) publishes it; scratch removed.    *)
(*   read():   make a scratch directory; copy_to_local(path) fetches the   *)
(*             remote value; inner store reads it; scratch removed.        *)
(* Every step may fail (Fail).  What a user of a MountedStore subclass     *)
(* relies on:                                                              *)
(*   - the remote value changes only in copy_from_local, and only to the   *)
(*     value being written (PublishOnly);                                  *)
(*   - a write that raises before or in copy_from_local leaves the remote  *)
(*     value as it was (given that copy_from_local itself is all-or-       *)
(*     nothing), a read never changes it (FailedWriteKeepsRemote);         *)
(*   - whatever happens, the scratch directory is gone when the operation  *)
(*     ends (NoScratchLeft), and two operations never share a scratch path *)
(*     (OwnScratch) - operations of several threads do not disturb each    *)
(*     other;                                                              *)
(*   - read returns what the last successful write published (ReadsLast).  *)
(***************************************************************************)
EXTENDS Naturals, FiniteSets, Sequences

CONSTANTS Ops,        \* operation ids (each is one write or read by some thread)
          MaxVal

VARIABLES remote,     \* 0 = nothing stored, else the value id
          pc,         \* pc[o] : "idle" | "scratch" | "staged" | "published" | "fetched" | "done" | "failed"
          kind,       \* kind[o] : "none" | "write" | "read"
          val,        \* val[o] : value being written / value read
          scratch,    \* scratch[o] : 0 = none, else the id of its scratch directory
          local,      \* local[o] : content of the scratch file (0 = absent)
          nextdir,    \* scratch directory ids handed out so far
          published,  \* sequence of values published, in order
          result      \* result[o] : value returned by a read (0 = none)

mvars == <<remote, pc, kind, val, scratch, local, nextdir, published, result>>

MInit ==
  /\ remote = 0 /\ pc = [o \in Ops |-> "idle"] /\ kind = [o \in Ops |-> "none"] /\ val = [o \in Ops |-> 0]
  /\ scratch = [o \in Ops |-> 0] /\ local = [o \in Ops |-> 0] /\ nextdir = 0 /\ published = <<>>
  /\ result = [o \in Ops |-> 0]

Begin(o, k, v) ==
  /\ pc[o] = "idle" /\ kind[o] = "none"
  /\ kind' = [kind EXCEPT ![o] = k] /\ val' = [val EXCEPT ![o] = v]
  /\ nextdir' = nextdir + 1 /\ scratch' = [scratch EXCEPT ![o] = nextdir + 1]
  /\ pc' = [pc EXCEPT ![o] = "scratch"]
  /\ UNCHANGED <<remote, local, published, result>>

\* write: the inner store writes the scratch file
InnerWrite(o) ==
  /\ kind[o] = "write" /\ pc[o] = "scratch"
  /\ local' = [local EXCEPT ![o] = val[o]] /\ pc' = [pc EXCEPT ![o] = "staged"]
  /\ UNCHANGED <<remote, kind, val, scratch, nextdir, published, result>>
\* write: copy_from_local publishes the scratch file
Publish(o) ==
  /\ kind[o] = "write" /\ pc[o] = "staged"
  /\ remote' = local[o] /\ published' = Append(published, local[o]) /\ pc' = [pc EXCEPT ![o] = "published"]
  /\ UNCHANGED <<kind, val, scratch, local, nextdir, result>>
\* read: copy_to_local fetches the remote value (fails if nothing is stored)
Fetch(o) ==
  /\ kind[o] = "read" /\ pc[o] = "scratch" /\ remote # 0
  /\ local' = [local EXCEPT ![o] = remote] /\ pc' = [pc EXCEPT ![o] = "fetched"]
  /\ UNCHANGED <<remote, kind, val, scratch, nextdir, published, result>>
InnerRead(o) ==
  /\ kind[o] = "read" /\ pc[o] = "fetched"
  /\ result' = [result EXCEPT ![o] = local[o]] /\ pc' = [pc EXCEPT ![o] = "published"]
  /\ UNCHANGED <<remote, kind, val, scratch, local, nextdir, published>>
\* any step may raise instead
Fail(o) ==
  /\ pc[o] \in {"scratch", "staged", "fetched"}
  /\ pc' = [pc EXCEPT ![o] = "failed"]
  /\ UNCHANGED <<remote, kind, val, scratch, local, nextdir, published, result>>
\* leaving the operation (normally or by exception) removes the scratch directory
End(o) ==
  /\ pc[o] \in {"published", "failed"}
  /\ scratch' = [scratch EXCEPT ![o] = 0] /\ local' = [local EXCEPT ![o] = 0]
  /\ pc' = [pc EXCEPT ![o] = IF pc[o] = "failed" THEN "raised" ELSE "done"]
  /\ UNCHANGED <<remote, kind, val, nextdir, published, result>>

MNext == \E o \in Ops :
  \/ \E v \in 1..MaxVal : Begin(o, "write", v)
  \/ Begin(o, "read", 0)
  \/ InnerWrite(o) \/ Publish(o) \/ Fetch(o) \/ InnerRead(o) \/ Fail(o) \/ End(o)
MSpec == MInit /\ [][MNext]_mvars

\* ---- properties ----------------------------------------------------------------
PublishOnly == [][remote' # remote => \E o \in Ops : kind[o] = "write" /\ pc[o] = "staged" /\ remote' = val[o]]_mvars
NoScratchLeft == \A o \in Ops : pc[o] \in {"done", "raised", "idle"} => scratch[o] = 0
OwnScratch == \A o1, o2 \in Ops : (o1 # o2 /\ scratch[o1] # 0 /\ scratch[o2] # 0) => scratch[o1] # scratch[o2]
FailedWriteKeepsRemote == [][\A o \in Ops : (pc[o] \in {"scratch", "staged"} /\ pc'[o] = "failed") => remote' = remote]_mvars
ReadsLast == \A o \in Ops : (kind[o] = "read" /\ pc[o] = "done") => \E i \in 1..Len(published) : published[i] = result[o]
RemoteIsLastPublished == remote = (IF published = <<>> THEN 0 ELSE published[Len(published)])
=============================================================================
