------------------------------ MODULE PlanApi ------------------------------
(***************************************************************************)
(* The construction API as a state machine: Plan.call / lit /              *)
(* add_dependency / scope / copy and Registry.add / source / copy.         *)
(* Node objects are global (a copy of a plan shares the node objects of    *)
(* the original, only the graph is copied); a Plan is a set of nodes and a *)
(* multiset of edges plus a scope stack; a Registry maps nodes to stores.  *)
(*                                                                         *)
(* Used as a generator: TLC (simulation) produces behaviours whose         *)
(* actions, with their parameters, and the abstract state after each       *)
(* action are replayed step by step into the real classes                  *)
(* (vf/props/c13_api.py); the projected real state must agree after every  *)
(* step. The frame conditions are the "copies are independent" half of     *)
(* C13: an action on one plan or registry leaves every other one unchanged.*)
(***************************************************************************)
EXTENDS Integers, Sequences, FiniteSets, TLC, Json, SequencesExt

CONSTANTS MaxPlans, MaxRegs, MaxNodes, MaxSteps

VARIABLES plans,      \* plans[p] = [nodes |-> set, nedges |-> Nat, scope |-> seq] for created plans
          regs,       \* regs[r] = set of registered nodes
          nnodes,     \* node objects created so far (ids 1..nnodes)
          kind,       \* kind[n] \in {"call", "lit"}
          nscope,     \* nscope[n] : the scope stack of the creating plan at creation time
          last,       \* the last action: what was attempted and whether it must be refused
          steps

vars == <<plans, regs, nnodes, kind, nscope, last, steps>>

PlanIds == DOMAIN plans
RegIds == DOMAIN regs
Nodes == 1..nnodes

Init ==
  /\ plans = <<>> /\ regs = <<>> /\ nnodes = 0 /\ kind = <<>> /\ nscope = <<>>
  /\ last = [a |-> "init", p |-> 0, r |-> 0, x |-> 0, y |-> 0, ok |-> TRUE] /\ steps = 0

Act(a, p, r, x, y, ok) == last' = [a |-> a, p |-> p, r |-> r, x |-> x, y |-> y, ok |-> ok] /\ steps' = steps + 1

NewPlan ==
  /\ Len(plans) < MaxPlans
  /\ plans' = Append(plans, [nodes |-> {}, nedges |-> 0, scope |-> <<>>])
  /\ Act("new_plan", Len(plans) + 1, 0, 0, 0, TRUE) /\ UNCHANGED <<regs, nnodes, kind, nscope>>

NewReg ==
  /\ Len(regs) < MaxRegs
  /\ regs' = Append(regs, {})
  /\ Act("new_registry", 0, Len(regs) + 1, 0, 0, TRUE) /\ UNCHANGED <<plans, nnodes, kind, nscope>>

\* plan.call(f, x) with x an existing node object (possibly of another plan: networkx adds it to this graph), or no argument (x = 0)
Call(p, x) ==
  /\ nnodes < MaxNodes /\ (x = 0 \/ x \in Nodes)
  /\ LET n == nnodes + 1 IN
     /\ nnodes' = n /\ kind' = Append(kind, "call") /\ nscope' = Append(nscope, plans[p].scope)
     /\ plans' = [plans EXCEPT ![p] = [@ EXCEPT !.nodes = @ \cup {n} \cup (IF x = 0 THEN {} ELSE {x}), !.nedges = @ + (IF x = 0 THEN 0 ELSE 1)]]
     /\ Act("call", p, 0, x, n, TRUE)
  /\ UNCHANGED regs

Lit(p) ==
  /\ nnodes < MaxNodes
  /\ LET n == nnodes + 1 IN
     /\ nnodes' = n /\ kind' = Append(kind, "lit") /\ nscope' = Append(nscope, plans[p].scope)
     /\ plans' = [plans EXCEPT ![p] = [@ EXCEPT !.nodes = @ \cup {n}]]
     /\ Act("lit", p, 0, 0, n, TRUE)
  /\ UNCHANGED regs

\* add_dependency: both nodes must be in the plan's graph, otherwise KeyError and nothing changes;
\* a second Dependency between the same pair is the same edge (MultiDiGraph keyed by Dependency())
VARIABLE depset   \* depset[p] : set of <<a, b>> dependency edges of plan p
AddDep(p, a, b) ==
  /\ a \in Nodes /\ b \in Nodes
  /\ IF a \in plans[p].nodes /\ b \in plans[p].nodes
       THEN /\ plans' = [plans EXCEPT ![p] = [@ EXCEPT !.nedges = @ + (IF <<a, b>> \in depset[p] THEN 0 ELSE 1)]]
            /\ depset' = [depset EXCEPT ![p] = @ \cup {<<a, b>>}]
            /\ Act("add_dependency", p, 0, a, b, TRUE)
       ELSE UNCHANGED <<plans, depset>> /\ Act("add_dependency", p, 0, a, b, FALSE)
  /\ UNCHANGED <<regs, nnodes, kind, nscope>>

ScopeEnter(p, v) ==
  /\ Len(plans[p].scope) < 2
  /\ plans' = [plans EXCEPT ![p] = [@ EXCEPT !.scope = Append(@, v)]]
  /\ Act("scope_enter", p, 0, v, 0, TRUE) /\ UNCHANGED <<regs, nnodes, kind, nscope, depset>>
ScopeExit(p) ==
  /\ Len(plans[p].scope) > 0
  /\ plans' = [plans EXCEPT ![p] = [@ EXCEPT !.scope = SubSeq(@, 1, Len(@) - 1)]]
  /\ Act("scope_exit", p, 0, 0, 0, TRUE) /\ UNCHANGED <<regs, nnodes, kind, nscope, depset>>

CopyPlan(p) ==
  /\ Len(plans) < MaxPlans
  /\ plans' = Append(plans, [nodes |-> plans[p].nodes, nedges |-> plans[p].nedges, scope |-> <<>>])    \* a copy starts with an empty scope
  /\ depset' = Append(depset, depset[p])
  /\ Act("copy_plan", p, 0, 0, Len(plans) + 1, TRUE) /\ UNCHANGED <<regs, nnodes, kind, nscope>>

\* registry.add(node, store): any Node object; refused if the node already has a store
RegAdd(r, n) ==
  /\ n \in Nodes
  /\ IF n \in regs[r] THEN UNCHANGED regs /\ Act("registry_add", 0, r, n, 0, FALSE)
                      ELSE regs' = [regs EXCEPT ![r] = @ \cup {n}] /\ Act("registry_add", 0, r, n, 0, TRUE)
  /\ UNCHANGED <<plans, nnodes, kind, nscope, depset>>
\* registry.source(plan, store): a new call node in the plan, registered
RegSource(r, p) ==
  /\ nnodes < MaxNodes
  /\ LET n == nnodes + 1 IN
     /\ nnodes' = n /\ kind' = Append(kind, "call") /\ nscope' = Append(nscope, plans[p].scope)
     /\ plans' = [plans EXCEPT ![p] = [@ EXCEPT !.nodes = @ \cup {n}]]
     /\ regs' = [regs EXCEPT ![r] = @ \cup {n}]
     /\ Act("registry_source", p, r, 0, n, TRUE)
  /\ UNCHANGED depset
CopyReg(r) ==
  /\ Len(regs) < MaxRegs
  /\ regs' = Append(regs, regs[r])
  /\ Act("copy_registry", 0, r, 0, Len(regs) + 1, TRUE) /\ UNCHANGED <<plans, nnodes, kind, nscope, depset>>

NextA ==
  /\ steps < MaxSteps
  /\ \/ NewPlan /\ depset' = Append(depset, {})
     \/ NewReg /\ UNCHANGED depset
     \/ \E p \in PlanIds :
          \/ \E x \in Nodes \cup {0} : Call(p, x) /\ UNCHANGED depset
          \/ Lit(p) /\ UNCHANGED depset
          \/ \E a \in Nodes, b \in Nodes : a # b /\ AddDep(p, a, b)
          \/ \E v \in {"s", "t"} : ScopeEnter(p, v)
          \/ ScopeExit(p)
          \/ CopyPlan(p)
          \/ \E r \in RegIds : RegSource(r, p)
     \/ \E r \in RegIds : (\E n \in Nodes : RegAdd(r, n)) \/ CopyReg(r)

VARIABLE hist    \* generator output: the actions so far with the abstract state after each
allvars == <<vars, depset, hist>>

\* what the replayer compares after every step
Obs == [plans |-> [p \in PlanIds |-> [nn |-> Cardinality(plans[p].nodes), ne |-> plans[p].nedges, scope |-> plans[p].scope,
                                      nodes |-> SetToSortSeq(plans[p].nodes, <)]],
        regs |-> [r \in RegIds |-> SetToSortSeq(regs[r], <)],
        nnodes |-> nnodes]

InitA == Init /\ depset = <<>> /\ hist = <<>>
NextH == NextA /\ hist' = Append(hist, [act |-> last', obs |-> Obs'])
SpecA == InitA /\ [][NextH]_allvars

\* C13 (copies independent) as a frame condition: an action names at most one plan and one registry; all others are unchanged
FrameCondition ==
  [][/\ \A p \in PlanIds : (p # last'.p /\ p \in DOMAIN plans') => plans'[p] = plans[p]
     /\ \A r \in RegIds : (r # last'.r /\ r \in DOMAIN regs') => regs'[r] = regs[r]]_allvars

\* generator output: one JSON line per complete behaviour (in simulation mode TLC evaluates invariants on every
\* successor it generates; each printed history is a path of the specification)
Emit == steps = MaxSteps => PrintT(ToJson(hist))
View == <<vars, depset>>
TypeOK == nnodes <= MaxNodes /\ Len(plans) <= MaxPlans
=============================================================================
