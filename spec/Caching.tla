------------------------------ MODULE Caching ------------------------------
(***************************************************************************)
(* What `uberjob.run(plan, registry=..., fresh_time=..., output=...)` does *)
(* to value stores over a *history* of runs, cut-short runs, source        *)
(* updates and deletions.                                                  *)
(*                                                                         *)
(* State carried between runs is exactly what the code carries: per store  *)
(* its modified time (a logical clock rank, 0 = nothing stored) and its    *)
(* content. Contents are abstract *terms* recording which call produced    *)
(* them from which argument values, so "equals the from-scratch value" is  *)
(* plain equality with the term `Scratch[n]` built from the current source *)
(* versions.                                                               *)
(*                                                                         *)
(* A run is: the stale check (`StaleSet`, a transcription of               *)
(* caching._get_stale_nodes), the transformation into a physical plan      *)
(* (`NodePreds`, `PlanOps`:   read / write / Barrier insertion, edge       *)
(* re-pointing, required set and ancestor pruning of                       *)
(* caching.plan_with_value_stores + pruning.prune_plan) and the execution  *)
(* of the physical operations in any order compatible with that plan, cut  *)
(* short at any point (`Abort`: a failing call or store operation, an      *)
(* interrupt, process death - all that matters to the stores is which      *)
(* operations took effect).                                                *)
(*                                                                         *)
(* Guards are *named clause lists* as in RunAbs.tla: the same definitions  *)
(* enable the actions in model checking and name the clause an observed    *)
(* execution of the real code breaks in CachingTrace.tla.                  *)
(*                                                                         *)
(* Properties carried: C03 SameAsFromScratch, C05 StaleIsOutOfDate /       *)
(* ExactlyStaleRebuilt / SecondRunNoOp, C08 LooksFreshImpliesCorrect /     *)
(* CompletedWritesKept, C09 WriteThenReadThenUse (clauses of StartG,       *)
(* ReadG, WriteG), C14 dry run = the same plan without execution.          *)
(***************************************************************************)
EXTENDS Integers, FiniteSets, Sequences, TLC

CONSTANT Configs,     \* set of scenario records explored (one per initial state)
         MaxClock     \* bound on the logical clock in model checking (state constraint)

VARIABLE cfg          \* the scenario: [N, kind, args, deps, reg, wof, side, norm, consistent, outs]

Range(s) == {s[i] : i \in DOMAIN s}

\* A scenario record as produced by the harness (all sequences indexed by node id 1..N, ids in a
\* topological order):
\*   kind[n] "call"|"lit";  args[n] sequence of argument predecessors (positional then keyword);
\*   deps[n] sequence of plain-dependency predecessors;  reg[n] "none"|"src"|"stored";
\*   wof[s]  for a source: the call that writes its store as a side effect (0: a pure source);
\*   side[c] for a call: the source whose store it writes (0: none);
\*   norm    stores normalise on read (read returns something distinguishable from what was written)
\*   outs    set of output specifications (sequences of node ids) a run may ask for
N == cfg.N
Nodes == 1..N
Kind(n) == cfg.kind[n]
Args(n) == cfg.args[n]
ArgSet(n) == Range(cfg.args[n])
Deps(n) == Range(cfg.deps[n])
RegOf(n) == cfg.reg[n]
Reg(n) == cfg.reg[n] # "none"
Stored(n) == cfg.reg[n] = "stored"
WriterOf(s) == cfg.wof[s]
SideOf(c) == cfg.side[c]
PureSrc(n) == cfg.reg[n] = "src" /\ cfg.wof[n] = 0
DepSrc(n) == cfg.reg[n] = "src" /\ cfg.wof[n] # 0
Pred(n) == ArgSet(n) \cup Deps(n)
RegNodes == {n \in Nodes : Reg(n)}

\* ---- values ----------------------------------------------------------------
T(n, v, a) == [n |-> n, v |-> v, a |-> a]
Nil == T(-1, 0, <<>>)
Norm(t) == IF cfg.norm THEN T(0, 0, <<t>>) ELSE t      \* what a store's read returns for content t

VARIABLES mt,         \* mt[n] : modified time of n's store as a rank of the logical clock, 0 = absent
          val,        \* val[n] : content of n's store (Nil if absent)
          srcver,     \* srcver[s] : version of pure source s (bumped by UpdateSource)
          clock,      \* logical clock: strictly increases with every write
          \* --- the run in progress (or the last one) ---
          phase,      \* "idle" | "run"
          fresh,      \* fresh_time of the run as a rank (0 = None)
          out,        \* requested output: sequence of node ids (<<>> = None)
          mt0,        \* modified times when the run began (what the stale check saw)
          stale,      \* registered nodes the stale check declared stale
          pm,         \* the physical plan computed when the run began: pm[x].ep / pm[x].ea (see PhysMap)
          todo,       \* physical operations of the plan: <<"call"|"read"|"write", n>>
          begun,      \* operations started
          done,       \* operations completed successfully
          mem,        \* mem[n] : in-memory result of call n in this run
          got,        \* got[n] : what reading n's store returned in this run
          nrd, nwr, ncl,   \* per-run counters of reads / writes / call executions per node
          wr,         \* stored nodes completely written by this (or the last) run
          outcome,    \* "none" | "ok" | "fail" : how the last run ended
          outval      \* the value a successful run returned

storevars == <<mt, val, srcver, clock>>
runvars == <<phase, fresh, out, mt0, stale, pm, todo, begun, done, mem, got, nrd, nwr, ncl, wr, outcome, outval>>
svars == <<storevars, runvars>>
vars == <<cfg, svars>>

Max2(S) == IF S = {} THEN 0 ELSE CHOOSE x \in S : \A y \in S : y <= x

\* ---- the stale check as the code computes it (caching._get_stale_nodes) ----
\* t = the modified time that flows to successors (0 encodes None)
\* (computed as a fold over the node ids, which are a topological order, so that TLC does not
\* re-evaluate shared ancestors exponentially often)
StaleEntry(n, G, mtf, fr) ==
    LET P == Pred(n) IN
    IF \E p \in P : G[p].stale THEN [stale |-> TRUE, t |-> 0]
    ELSE LET A == Max2({G[p].t : p \in P}) IN
         IF ~Reg(n) THEN [stale |-> FALSE, t |-> A]                \* time flows through unstored nodes
         ELSE IF mtf[n] = 0 THEN [stale |-> TRUE, t |-> 0]
         ELSE IF (A # 0 \/ RegOf(n) # "src") /\ Max2({mtf[n], A, fr}) > mtf[n]
              THEN [stale |-> TRUE, t |-> 0]
         ELSE [stale |-> FALSE, t |-> mtf[n]]
RECURSIVE StaleFold(_, _, _, _)
StaleFold(k, G, mtf, fr) == IF k > N THEN G ELSE StaleFold(k + 1, G @@ (k :> StaleEntry(k, G, mtf, fr)), mtf, fr)
StaleInfo(mtf, fr) == StaleFold(1, <<>>, mtf, fr)
StaleSet(mtf, fr) == LET G == StaleInfo(mtf, fr) IN {n \in RegNodes : G[n].stale}

\* ---- C05: "out of date" as the property states it, written independently ----
RECURSIVE AncFold(_, _)
AncFold(k, G) == IF k > N THEN G ELSE AncFold(k + 1, G @@ (k :> UNION {G[p] \cup {p} : p \in Pred(k)}))
AncOf == AncFold(1, <<>>)
RegAnc(n) == {u \in AncOf[n] : Reg(u)}
FreshApplies(n) == Stored(n) \/ RegAnc(n) # {}    \* a source nothing stored is upstream of is only out of date when missing
OodEntry(n, G, A, mtf, fr) ==
  LET RA == {u \in A[n] : Reg(u)} IN
  IF Reg(n) THEN \/ mtf[n] = 0
                 \/ (Stored(n) \/ RA # {}) /\ fr > mtf[n]
                 \/ \E u \in RA : G[u] \/ mtf[u] > mtf[n]
  ELSE \E u \in RA : G[u]
RECURSIVE OodFold(_, _, _, _, _)
OodFold(k, G, A, mtf, fr) == IF k > N THEN G ELSE OodFold(k + 1, G @@ (k :> OodEntry(k, G, A, mtf, fr)), A, mtf, fr)
OutOfDate(mtf, fr) == LET G == OodFold(1, <<>>, AncOf, mtf, fr) IN {n \in RegNodes : G[n]}

\* ---- the physical plan (caching.plan_with_value_stores + pruning.prune_plan) ----
\* physical nodes: <<"call",n>> <<"lit",n>> the caller's own nodes; <<"read",n>> <<"write",n>> the
\* inserted store calls; <<"bar",n>> the Barrier literal of a stale source
Orig(n) == <<Kind(n), n>>
ArgSrc(p) == IF Reg(p) THEN <<"read", p>> ELSE Orig(p)       \* argument edges are re-pointed to the read node
Wn(p) == IF RegOf(p) = "src" THEN <<"bar", p>> ELSE <<"write", p>>
DepSrcs(p, S) == IF Reg(p) THEN (IF p \in S THEN {Wn(p)} ELSE {}) ELSE {Orig(p)}   \* plain dependencies to the write node, dropped when not stale
LogicalPreds(n, S) == {ArgSrc(p) : p \in ArgSet(n)} \cup UNION {DepSrcs(p, S) : p \in Deps(n)}
NodePreds(x, S) ==
  CASE x[1] \in {"call", "lit"} -> LogicalPreds(x[2], S)
    [] x[1] = "read" -> IF x[2] \in S THEN {Wn(x[2])} ELSE {}
    [] x[1] = "write" -> {Orig(x[2])}
    [] x[1] = "bar" -> UNION {DepSrcs(p, S) : p \in Deps(x[2])}   \* the Barrier inherits the source's predecessors
OutNodes(o) == {ArgSrc(o[i]) : i \in DOMAIN o}
Required(S, o) == {Wn(n) : n \in S} \cup OutNodes(o)
Exec(x) == x[1] \in {"call", "read", "write"}
\* physical nodes in an order in which every node comes after its NodePreds
PhysSeq(n) == << Orig(n), <<"write", n>>, <<"bar", n>>, <<"read", n>> >>
\* EP[x] : executable operations that must have completed before x may start (through literals and
\* barriers); EA[x] : all executable operations upstream of x. Built by a fold in dependency order.
RECURSIVE PhysFold(_, _, _, _)
PhysFold(k, j, M, S) ==
  IF k > N THEN M
  ELSE IF j > 4 THEN PhysFold(k + 1, 1, M, S)
  ELSE LET x == PhysSeq(k)[j]
           ep == UNION {IF Exec(p) THEN {p} ELSE M[p].ep : p \in NodePreds(x, S)}
           ea == ep \cup UNION {M[p].ea : p \in ep}
       IN PhysFold(k, j + 1, M @@ (x :> [ep |-> ep, ea |-> ea]), S)
PhysMap(S) == PhysFold(1, 1, <<>>, S)
ExecPreds(x, S) == LET M == PhysMap(S) IN IF x \in DOMAIN M THEN M[x].ep ELSE {}     \* total: {} for a node that does not exist
ExecAnc(x, S) == LET M == PhysMap(S) IN IF x \in DOMAIN M THEN M[x].ea ELSE {}
PlanOps(S, o) == LET M == PhysMap(S) R == Required(S, o) IN {x \in R : Exec(x)} \cup UNION {M[r].ea : r \in R}

PmPreds(x) == IF x \in DOMAIN pm THEN pm[x].ep ELSE {}      \* the plan of the run in progress
PmAnc(x) == IF x \in DOMAIN pm THEN pm[x].ea ELSE {}

\* ---- values during a run ---------------------------------------------------
LitVal(n) == T(n, 0, <<>>)
ArgVal(p) == IF Reg(p) THEN got[p] ELSE IF Kind(p) = "lit" THEN LitVal(p) ELSE mem[p]
ArgVals(c) == [i \in DOMAIN Args(c) |-> ArgVal(Args(c)[i])]
CallVal(c) == T(c, 0, ArgVals(c))
SideVal(c) == T(SideOf(c), 0, ArgVals(c))
OutVal == [i \in DOMAIN out |-> ArgVal(out[i])]

\* ---- from-scratch evaluation on the current source versions ------------------
ScratchEntry(n, G) ==
  LET Seen(p) == IF Reg(p) THEN Norm(G[p]) ELSE G[p]
      AV(c) == [i \in DOMAIN Args(c) |-> Seen(Args(c)[i])]
  IN IF Kind(n) = "lit" THEN LitVal(n)
     ELSE IF RegOf(n) = "src" THEN (IF WriterOf(n) = 0 THEN T(n, srcver[n], <<>>) ELSE T(n, 0, AV(WriterOf(n))))
     ELSE T(n, 0, AV(n))
RECURSIVE ScratchFold(_, _)
ScratchFold(k, G) == IF k > N THEN G ELSE ScratchFold(k + 1, G @@ (k :> ScratchEntry(k, G)))
Scratch == ScratchFold(1, <<>>)
SeenScratch(p) == IF Reg(p) THEN Norm(Scratch[p]) ELSE Scratch[p]
ScratchOut(o) == [i \in DOMAIN o |-> SeenScratch(o[i])]

\* ---- initial state -----------------------------------------------------------
PureSources == {n \in Nodes : PureSrc(n)}
Rank(n, S) == Cardinality({m \in S : m <= n})
InitState ==
  /\ srcver = [n \in Nodes |-> IF PureSrc(n) THEN 1 ELSE 0]
  /\ mt = [n \in Nodes |-> IF PureSrc(n) THEN Rank(n, PureSources) ELSE 0]
  /\ val = [n \in Nodes |-> IF PureSrc(n) THEN T(n, 1, <<>>) ELSE Nil]
  /\ clock = Cardinality(PureSources)
  /\ phase = "idle" /\ fresh = 0 /\ out = <<>> /\ mt0 = mt /\ stale = {} /\ pm = PhysMap({})
  /\ todo = {} /\ begun = {} /\ done = {}
  /\ mem = [n \in Nodes |-> Nil] /\ got = [n \in Nodes |-> Nil]
  /\ nrd = [n \in Nodes |-> 0] /\ nwr = [n \in Nodes |-> 0] /\ ncl = [n \in Nodes |-> 0]
  /\ wr = {} /\ outcome = "none" /\ outval = <<>>

Init == cfg \in Configs /\ InitState

\* ---- clause lists ------------------------------------------------------------
Holds(gs) == \A i \in DOMAIN gs : gs[i][2]
Broken(gs) == {gs[i][1] : i \in {j \in DOMAIN gs : ~gs[j][2]}}

StoredAnc(n) == {u \in AncOf[n] : Stored(u)}

\* a call (a node of the caller's plan) starts
StartG(c) == <<
  <<"call_in_run", phase = "run">>,
  <<"call_in_plan", <<"call", c>> \in todo>>,                                    \* C05: only calls needed to rebuild / produce the output
  <<"call_once", <<"call", c>> \notin begun>>,                                   \* C05 / C04
  <<"call_plan_preds_done", PmPreds(<<"call", c>>) \subseteq done>>,    \* the physical plan's order
  \* C09, stated directly: an argument that has a store was read back (and, if rebuilt, written) first
  <<"c09_arg_read_back", \A p \in ArgSet(c) : Reg(p) => <<"read", p>> \in done>>,
  <<"c09_arg_written_first", \A p \in ArgSet(c) : (Stored(p) /\ p \in stale) => <<"write", p>> \in done>>,
  <<"c09_dep_written_first", \A p \in Deps(c) : (Stored(p) /\ p \in stale) => <<"write", p>> \in done>> >>

\* a call ends successfully with value v (and, if it is a side writer, has written its source's store)
EndG(c, v) == <<
  <<"end_of_begun", <<"call", c>> \in begun /\ <<"call", c>> \notin done>>,
  <<"call_value_from_read_args", v = CallVal(c)>> >>       \* C09: consumers receive what read returned; C02

ReadG(n, v) == <<
  <<"read_in_run", phase = "run">>,
  <<"read_in_plan", <<"read", n>> \in todo>>,                                    \* C05: read only if consumed
  <<"read_once", <<"read", n>> \notin begun>>,                                   \* C05: at most once
  <<"read_plan_preds_done", PmPreds(<<"read", n>>) \subseteq done>>,
  <<"c09_read_after_write", (Stored(n) /\ n \in stale) => <<"write", n>> \in done>>,
  \* C09: an out-of-date dependent source is read only after the calls it depends on have run
  <<"c09_depsrc_after_deps", (RegOf(n) = "src" /\ n \in stale) => \A p \in Deps(n) : (Kind(p) = "call" /\ ~Reg(p)) => <<"call", p>> \in done>>,
  <<"c09_depsrc_after_stored_deps", (RegOf(n) = "src" /\ n \in stale) => \A p \in Deps(n) : (Stored(p) /\ p \in stale) => <<"write", p>> \in done>>,
  <<"read_consumed", n \in Range(out) \/ \E c \in Nodes : n \in ArgSet(c) /\ <<"call", c>> \in todo>>,   \* C05
  <<"read_returns_content", mt[n] # 0 /\ v = Norm(val[n])>> >>

WriteG(n, v) == <<
  <<"write_in_run", phase = "run">>,
  <<"write_in_plan", <<"write", n>> \in todo>>,                                  \* C05: only out-of-date values are rewritten
  <<"write_once", <<"write", n>> \notin begun>>,                                 \* C05: exactly once
  <<"write_plan_preds_done", PmPreds(<<"write", n>>) \subseteq done>>,
  <<"write_is_stale", n \in stale /\ Stored(n)>>,
  <<"c09_upstream_written_first", \A u \in StoredAnc(n) : u \in stale => <<"write", u>> \in done>>,   \* C09: rebuilt after everything rebuilt upstream
  <<"write_value_is_result", v = mem[n]>> >>

EndRunG(v) == <<
  <<"end_in_run", phase = "run">>,
  <<"end_all_ops_done", todo \subseteq done>>,                                   \* C05: exactly the plan
  <<"end_nothing_running", begun \subseteq done>>,
  <<"end_output_value", v = OutVal>> >>

\* ---- effects -----------------------------------------------------------------
ResetRun ==
  /\ todo' = {} /\ begun' = {} /\ done' = {}
  /\ mem' = [n \in Nodes |-> Nil] /\ got' = [n \in Nodes |-> Nil]
  /\ nrd' = [n \in Nodes |-> 0] /\ nwr' = [n \in Nodes |-> 0] /\ ncl' = [n \in Nodes |-> 0]

UpdateSourceE(s) ==
  /\ srcver' = [srcver EXCEPT ![s] = @ + 1]
  /\ clock' = clock + 1
  /\ mt' = [mt EXCEPT ![s] = clock + 1]
  /\ val' = [val EXCEPT ![s] = T(s, srcver[s] + 1, <<>>)]
  /\ wr' = {} /\ outcome' = "none"
  /\ UNCHANGED <<phase, fresh, out, mt0, stale, pm, todo, begun, done, mem, got, nrd, nwr, ncl, outval>>

DeleteE(n) ==
  /\ mt' = [mt EXCEPT ![n] = 0] /\ val' = [val EXCEPT ![n] = Nil]
  /\ wr' = {} /\ outcome' = "none"
  /\ UNCHANGED <<srcver, clock, phase, fresh, out, mt0, stale, pm, todo, begun, done, mem, got, nrd, nwr, ncl, outval>>

BeginRunE(f, o) ==
  /\ phase' = "run" /\ fresh' = f /\ out' = o /\ mt0' = mt
  /\ LET S == StaleSet(mt, f) M == PhysMap(S) R == Required(S, o) IN
       /\ stale' = S /\ pm' = M
       /\ todo' = {x \in R : Exec(x)} \cup UNION {M[r].ea : r \in R}
  /\ begun' = {} /\ done' = {}
  /\ mem' = [n \in Nodes |-> Nil] /\ got' = [n \in Nodes |-> Nil]
  /\ nrd' = [n \in Nodes |-> 0] /\ nwr' = [n \in Nodes |-> 0] /\ ncl' = [n \in Nodes |-> 0]
  /\ wr' = {} /\ outcome' = "none" /\ outval' = <<>>
  /\ UNCHANGED storevars

StartE(c) ==
  /\ begun' = begun \cup {<<"call", c>>}
  /\ ncl' = [ncl EXCEPT ![c] = @ + 1]
  /\ UNCHANGED <<storevars, phase, fresh, out, mt0, stale, pm, todo, done, mem, got, nrd, nwr, wr, outcome, outval>>

\* the call's value is what the implementation produced (v); a side writer's store write takes effect here
EndE(c, v, sv) ==
  /\ done' = done \cup {<<"call", c>>}
  /\ mem' = [mem EXCEPT ![c] = v]
  /\ IF SideOf(c) # 0
       THEN /\ clock' = clock + 1
            /\ mt' = [mt EXCEPT ![SideOf(c)] = clock + 1]
            /\ val' = [val EXCEPT ![SideOf(c)] = sv]
            /\ UNCHANGED srcver
       ELSE UNCHANGED storevars
  /\ UNCHANGED <<phase, fresh, out, mt0, stale, pm, todo, begun, got, nrd, nwr, ncl, wr, outcome, outval>>

ReadE(n, v) ==
  /\ begun' = begun \cup {<<"read", n>>} /\ done' = done \cup {<<"read", n>>}
  /\ got' = [got EXCEPT ![n] = v]
  /\ nrd' = [nrd EXCEPT ![n] = @ + 1]
  /\ UNCHANGED <<storevars, phase, fresh, out, mt0, stale, pm, todo, mem, nwr, ncl, wr, outcome, outval>>

WriteE(n, v) ==
  /\ begun' = begun \cup {<<"write", n>>} /\ done' = done \cup {<<"write", n>>}
  /\ clock' = clock + 1
  /\ mt' = [mt EXCEPT ![n] = clock + 1]
  /\ val' = [val EXCEPT ![n] = v]
  /\ nwr' = [nwr EXCEPT ![n] = @ + 1]
  /\ wr' = wr \cup {n}
  /\ UNCHANGED <<srcver, phase, fresh, out, mt0, stale, pm, todo, mem, got, nrd, ncl, outcome, outval>>

EndRunE(v) ==
  /\ phase' = "idle" /\ outcome' = "ok" /\ outval' = v
  /\ UNCHANGED <<storevars, fresh, out, mt0, stale, pm, todo, begun, done, mem, got, nrd, nwr, ncl, wr>>

AbortE ==
  /\ phase' = "idle" /\ outcome' = "fail"
  /\ UNCHANGED <<storevars, fresh, out, mt0, stale, pm, todo, begun, done, mem, got, nrd, nwr, ncl, wr, outval>>

\* ---- actions of the design ---------------------------------------------------
UpdateSource(s) == phase = "idle" /\ PureSrc(s) /\ UpdateSourceE(s)
Delete(n) == phase = "idle" /\ Reg(n) /\ mt[n] # 0 /\ DeleteE(n)
FreshChoices == {0, clock}          \* None, or "now" (every stored value is older than fresh_time)
BeginRun(f, o) == phase = "idle" /\ BeginRunE(f, o)
\* a call is one atomic step of the design (its start and end are separate events in traces)
DoCall(c) ==
  /\ Holds(StartG(c))
  /\ begun' = begun \cup {<<"call", c>>} /\ done' = done \cup {<<"call", c>>}
  /\ ncl' = [ncl EXCEPT ![c] = @ + 1]
  /\ mem' = [mem EXCEPT ![c] = CallVal(c)]
  /\ IF SideOf(c) # 0
       THEN /\ clock' = clock + 1
            /\ mt' = [mt EXCEPT ![SideOf(c)] = clock + 1]
            /\ val' = [val EXCEPT ![SideOf(c)] = SideVal(c)]
            /\ UNCHANGED srcver
       ELSE UNCHANGED storevars
  /\ UNCHANGED <<phase, fresh, out, mt0, stale, pm, todo, got, nrd, nwr, wr, outcome, outval>>
DoRead(n) == Holds(ReadG(n, Norm(val[n]))) /\ ReadE(n, Norm(val[n]))
DoWrite(n) == Holds(WriteG(n, mem[n])) /\ WriteE(n, mem[n])
EndRun == Holds(EndRunG(OutVal)) /\ EndRunE(OutVal)
Abort == phase = "run" /\ AbortE        \* a failure, an interrupt or process death: whatever took effect stays

Step ==
  \/ \E s \in Nodes : UpdateSource(s) \/ Delete(s) \/ DoCall(s) \/ DoRead(s) \/ DoWrite(s)
  \/ \E f \in FreshChoices, o \in cfg.outs : BeginRun(f, o)
  \/ EndRun \/ Abort
Next == Step /\ cfg' = cfg
Spec == Init /\ [][Next]_vars

ClockBound == clock <= MaxClock

\* ---- properties --------------------------------------------------------------
TypeOK ==
  /\ phase \in {"idle", "run"} /\ outcome \in {"none", "ok", "fail"}
  /\ stale \subseteq RegNodes /\ done \subseteq begun /\ begun \subseteq todo
  /\ \A n \in Nodes : mt[n] <= clock /\ (mt[n] = 0 <=> val[n] = Nil)

\* C03: a successful run returns the from-scratch output and leaves from-scratch values in every non-source store
SameAsFromScratch ==
  outcome = "ok" => /\ outval = ScratchOut(out)
                    /\ \A n \in Nodes : Stored(n) => mt[n] # 0 /\ val[n] = Scratch[n]
\* C05: the stale check finds exactly the out-of-date values
StaleIsOutOfDate == \A f \in {0, clock, fresh} : StaleSet(mt, f) = OutOfDate(mt, f)
\* C05: a successful run rewrote exactly the out-of-date stored values, once; reads at most once and only if consumed
ExactlyStaleRebuilt ==
  outcome = "ok" => \A n \in Nodes :
     /\ nwr[n] = (IF Stored(n) /\ n \in OutOfDate(mt0, fresh) THEN 1 ELSE 0)
     /\ nrd[n] <= 1 /\ ncl[n] <= 1
     /\ nrd[n] = 1 => n \in Range(out) \/ \E c \in Nodes : n \in ArgSet(c) /\ ncl[c] = 1
     /\ (Stored(n) /\ n \notin OutOfDate(mt0, fresh)) => ncl[n] = 0          \* up-to-date values are not recomputed
SourcesPresent == \A s \in Nodes : PureSrc(s) => mt[s] # 0     \* the premise under which a run can succeed at all
\* C05: repeated immediately with no output requested, the run would do nothing
\* ... and a scenario in which a dependent source has a plain dependency that its writer does not have is
\* inconsistent: the source's data can be produced before that dependency is rebuilt, so the source stays "older
\* than something upstream" after a successful run and is legitimately rebuilt once more
Consistent == cfg.consistent
SecondRunNoOp == (outcome = "ok" /\ SourcesPresent /\ Consistent) => PlanOps(StaleSet(mt, fresh), <<>>) = {}
\* C08: in every state - mid-run, after a cut - whatever a later run would treat as up to date is correct
LooksFreshImpliesCorrect ==
  \A n \in Nodes : (Stored(n) \/ DepSrc(n)) /\ n \notin StaleSet(mt, 0) => val[n] = Scratch[n]
\* C08: values completely written before a cut are not rebuilt by the next run (same fresh_time, nothing changed upstream)
CompletedWritesKept == (SourcesPresent /\ Consistent) => \A n \in wr : n \notin StaleSet(mt, fresh)
\* C09 as an action property of the design: whenever the plan order lets an operation start, the
\* directly stated write -> read -> use clauses hold (they are part of the guards, so this is
\* checked through `PlanOrderSufficient` below)
PlanOrderG(x) == PmPreds(x) \subseteq done
C09Clauses(gs) == {i \in DOMAIN gs : gs[i][1] \in {"c09_arg_read_back", "c09_arg_written_first", "c09_dep_written_first",
                                                     "c09_read_after_write", "c09_depsrc_after_deps", "c09_depsrc_after_stored_deps", "c09_upstream_written_first"}}
PlanOrderSufficient ==
  phase = "run" => \A n \in Nodes :
     /\ (<<"call", n>> \in todo \ begun /\ PlanOrderG(<<"call", n>>)) => \A i \in C09Clauses(StartG(n)) : StartG(n)[i][2]
     /\ (<<"read", n>> \in todo \ begun /\ PlanOrderG(<<"read", n>>)) => \A i \in C09Clauses(ReadG(n, Nil)) : ReadG(n, Nil)[i][2]
     /\ (<<"write", n>> \in todo \ begun /\ PlanOrderG(<<"write", n>>)) => \A i \in C09Clauses(WriteG(n, Nil)) : WriteG(n, Nil)[i][2]
\* C09: every stored value downstream of a rebuilt one is rebuilt in the same run
DownstreamRebuilt == \A n \in stale : \A d \in Nodes : (Reg(d) /\ n \in AncOf[d]) => d \in stale
\* the plan is executable: every operation's prerequisites are themselves in the plan
PlanClosed == \A x \in todo : PmPreds(x) \subseteq todo

\* all state invariants as a clause list (used by the trace monitor)
InvG == <<
  <<"inv_SameAsFromScratch", SameAsFromScratch>>,
  <<"inv_StaleIsOutOfDate", StaleIsOutOfDate>>,
  <<"inv_ExactlyStaleRebuilt", ExactlyStaleRebuilt>>,
  <<"inv_SecondRunNoOp", SecondRunNoOp>>,
  <<"inv_LooksFreshImpliesCorrect", LooksFreshImpliesCorrect>>,
  <<"inv_CompletedWritesKept", CompletedWritesKept>>,
  <<"inv_DownstreamRebuilt", DownstreamRebuilt>> >>
=============================================================================
