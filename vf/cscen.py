"""Caching scenarios: plans with a registry (pure sources, dependent sources with a side-writing
call, stored calls, unstored calls, literals), generators, TLA+ rendering, and construction of the
real Plan / Registry over harness stores whose values are *terms* (nested dicts) so that
Caching.tla can compare them with from-scratch evaluation."""
import itertools
import os
import random
import threading

from . import tlc

# A scenario (ids 1..N in a topological order; every list is indexed by id-1):
#   kind[i] "call"|"lit"; args[i] list of argument predecessors (positional, then keyword);
#   nkw[i] how many of the trailing args are passed as keywords; deps[i] plain-dependency predecessors;
#   reg[i] "none"|"src"|"stored"; wof[i] writer call of a dependent source (0 = none);
#   side[i] the source a call writes as a side effect (0 = none); norm: normalising stores


def wellformed(s):
    N = s["N"]
    succ = {i: set() for i in range(1, N + 1)}
    for i in range(1, N + 1):
        for p in s["args"][i - 1] + s["deps"][i - 1]:
            if not (1 <= p < i):
                return False
            succ[p].add(i)
    for i in range(1, N + 1):
        k, r = s["kind"][i - 1], s["reg"][i - 1]
        a, d = s["args"][i - 1], s["deps"][i - 1]
        if len(set(d)) != len(d):
            return False
        if k == "lit" and (a or r != "none" or s["side"][i - 1]):
            return False
        if r == "src":
            w = s["wof"][i - 1]
            if a:
                return False
            if w:
                # its writer first; further plain dependencies (e.g. on stored calls) are allowed if the writer has them too
                if not d or d[0] != w or s["side"][w - 1] != i or any(s["side"][p - 1] for p in d[1:]):
                    return False
                if s.get("consistent", True) and any(p not in s["args"][w - 1] and p not in s["deps"][w - 1] for p in d[1:]):
                    return False
            elif d:
                return False
        elif s["wof"][i - 1]:
            return False
        sd = s["side"][i - 1]
        if sd:
            # a side writer is an unstored call whose only successor is its dependent source
            if r not in ("none", "stored") or k != "call" or s["wof"][sd - 1] != i or succ[i] != {sd}:
                return False
    return True


def sinks(s):
    N = s["N"]
    used = set()
    for i in range(N):
        used |= set(s["args"][i]) | set(s["deps"][i])
    return [i for i in range(1, N + 1) if i not in used]


def default_outs(s):
    """Output specifications explored for a scenario: None, each single node, all sinks."""
    N = s["N"]
    outs = {()}
    for i in range(1, N + 1):
        if not s["side"][i - 1]:
            outs.add((i,))
    sk = tuple(i for i in sinks(s) if not s["side"][i - 1])
    if sk:
        outs.add(sk)
    return sorted(outs)


def to_tla(s, outs=None):
    d = {
        "N": s["N"], "kind": list(s["kind"]), "args": [list(a) for a in s["args"]],
        "deps": [list(a) for a in s["deps"]], "reg": list(s["reg"]), "wof": list(s["wof"]),
        "side": list(s["side"]), "norm": bool(s.get("norm", False)), "consistent": bool(s.get("consistent", True)),
        "outs": frozenset(tuple(o) for o in (outs if outs is not None else default_outs(s))),
    }
    return tlc.tla_value(d)


def gen_module(scns, outs_of=None):
    body = ",\n  ".join(to_tla(s, outs_of(s) if outs_of else None) for s in scns)
    return (
        "----------------------------- MODULE CachingGen -----------------------------\n"
        "GenConfigs == {\n  " + body + " }\n"
        "=============================================================================\n"
    )


def for_trace(s):
    return {
        "N": s["N"], "kind": list(s["kind"]), "args": [list(a) for a in s["args"]],
        "deps": [list(a) for a in s["deps"]], "reg": list(s["reg"]), "wof": list(s["wof"]),
        "side": list(s["side"]), "norm": bool(s.get("norm", False)), "consistent": bool(s.get("consistent", True)),
    }


# --------------------------------------------------------------------------------------
# generators


def random_scenario(rng, n_min=3, n_max=8, norm=None):
    """A seeded random role-assigned plan."""
    while True:
        N = rng.randint(n_min, n_max)
        kind, args, deps, reg, wof, side, nkw = [], [], [], [], [0] * N, [0] * N, []
        inconsistent = False
        i = 1
        plan = []
        while i <= N:
            r = rng.random()
            if i == 1 or r < 0.22:
                plan.append("src")
            elif r < 0.30 and i + 1 <= N:
                plan.append("writer")
                plan.append("depsrc")
                i += 1
            elif r < 0.38:
                plan.append("lit")
            elif r < 0.72:
                plan.append("stored")
            else:
                plan.append("plain")
            i += 1
        plan = plan[:N]
        if plan and plan[-1] == "writer":
            plan[-1] = "plain"
        ok = True
        for idx, role in enumerate(plan):
            i = idx + 1
            cands = [p for p in range(1, i) if not (plan[p - 1] == "writer")]
            if role == "src":
                kind.append("call"); args.append([]); deps.append([]); reg.append("src")
            elif role == "lit":
                kind.append("lit"); args.append([])
                d = [p for p in cands if rng.random() < 0.25]
                deps.append(d); reg.append("none")
            elif role == "depsrc":
                w = i - 1
                extra = [p for p in cands if p != w and plan[p - 1] in ("stored", "plain", "src", "depsrc") and rng.random() < 0.25]
                kind.append("call"); args.append([]); deps.append([w] + extra); reg.append("src")
                wof[idx] = w
                side[w - 1] = i
                # usually what the source depends on its writer depends on too (the data is produced after it);
                # otherwise the scenario is marked inconsistent (the repeat-run invariants do not apply to it)
                if extra and rng.random() < 0.5:
                    for e in extra:
                        if e not in args[w - 1] and e not in deps[w - 1]:
                            deps[w - 1].append(e)
                elif extra:
                    inconsistent = True
                if rng.random() < 0.3:
                    # the producer of the source's data has a store of its own. Its store is then always written after
                    # the source's, so the source stays "older than something upstream": like an inconsistent scenario,
                    # the repeat-run invariants do not apply
                    reg[w - 1] = "stored"
                    inconsistent = True
            else:
                kind.append("call")
                k = rng.choice([0, 1, 1, 2, 2, 3])
                a = [rng.choice(cands) for _ in range(min(k, len(cands)))] if cands else []
                if cands and not a and rng.random() < 0.7:
                    a = [rng.choice(cands)]
                d = [p for p in cands if p not in a and rng.random() < 0.15]
                args.append(a); deps.append(d)
                reg.append("stored" if role == "stored" else "none")
            nkw.append(rng.randint(0, len(args[-1])) if rng.random() < 0.3 else 0)
        s = {"N": N, "kind": kind, "args": args, "deps": deps, "reg": reg, "wof": wof, "side": side,
             "nkw": nkw, "norm": rng.random() < 0.5 if norm is None else norm,
             "scopes": [rng.choice([[], [], ["a"], ["b"], ["a", 1], ["a", "x"]]) for _ in range(N)],
             "consistent": not inconsistent, "falsy_stores": rng.random() < 0.2, "reg_seed": rng.choice([0, 0, rng.randrange(1, 1000)])}
        if ok and wellformed(s) and any(r == "stored" for r in reg):
            return s


def special_scenarios():
    """Hand-picked shapes that random generation rarely produces: chained dependent sources, a source depending on
    another source by a pure dependency, consumers that only depend on (do not read) a source, literal chains."""
    base = {"nkw": None, "norm": False, "scopes": None, "falsy_stores": False, "reg_seed": 0}
    shapes = [
        # src1 -> w2 => X3 ; src1 -> w4 => Y5 which also depends on X3 ; stored consumer of Y5
        dict(N=6, kind=["call"] * 6, args=[[], [1], [], [1], [], [5]], deps=[[], [], [2], [], [4, 3], []],
             reg=["src", "none", "src", "none", "src", "stored"], wof=[0, 0, 2, 0, 4, 0], side=[0, 3, 0, 5, 0, 0], consistent=False),
        # the consumer only depends on Y5 (looks at the data out of band) and is stored
        dict(N=6, kind=["call"] * 6, args=[[], [1], [], [1], [], [1]], deps=[[], [], [2], [], [4, 3], [5]],
             reg=["src", "none", "src", "none", "src", "stored"], wof=[0, 0, 2, 0, 4, 0], side=[0, 3, 0, 5, 0, 0], consistent=False),
        # three chained dependent sources
        dict(N=7, kind=["call"] * 7, args=[[], [], [], [1], [], [1], [5]], deps=[[], [], [2], [], [4, 3], [], [5]],
             reg=["src", "none", "src", "none", "src", "none", "stored"], wof=[0, 0, 2, 0, 4, 0, 0], side=[0, 3, 0, 5, 0, 0, 0], consistent=False),
        # dependency routed through two literals between stored calls
        dict(N=5, kind=["call", "call", "lit", "lit", "call"], args=[[], [1], [], [], [1]], deps=[[], [], [2], [3], [4]],
             reg=["src", "stored", "none", "none", "stored"], wof=[0] * 5, side=[0] * 5, consistent=True),
        # a literal that is both an argument and an ordering marker
        dict(N=5, kind=["call", "call", "lit", "call", "call"], args=[[], [1], [], [3, 1], [3]], deps=[[], [], [2], [], [4]],
             reg=["src", "stored", "none", "stored", "stored"], wof=[0] * 5, side=[0] * 5, consistent=True),
    ]
    out = []
    for sh in shapes:
        d = dict(base)
        d.update(sh)
        d["nkw"] = [0] * d["N"]
        d["scopes"] = [[] for _ in range(d["N"])]
        assert wellformed(d), d
        out.append(d)
    return out


def small_scenarios(N, norm=False, max_args=2):
    """Every well-formed role-assigned scenario on N nodes with at most `max_args` arguments per call
    and at most one plain dependency per ordered pair (exhaustive)."""
    roles = ["src", "stored", "plain", "lit", "writer", "depsrc"]
    for assign in itertools.product(roles, repeat=N):
        if assign[0] not in ("src", "plain", "stored", "lit", "writer"):
            continue
        # writers and dependent sources come in adjacent pairs
        okp = True
        for i, r in enumerate(assign):
            if r == "writer" and (i + 1 >= N or assign[i + 1] != "depsrc"):
                okp = False
            if r == "depsrc" and (i == 0 or assign[i - 1] != "writer"):
                okp = False
        if not okp or "stored" not in assign and "depsrc" not in assign:
            continue
        per_node = []
        for idx, r in enumerate(assign):
            i = idx + 1
            cands = [p for p in range(1, i) if assign[p - 1] != "writer"]
            opts = []
            if r == "src":
                opts = [([], [])]
            elif r == "depsrc":
                opts = [([], [i - 1])]
            elif r == "lit":
                for k in range(0, len(cands) + 1):
                    for d in itertools.combinations(cands, k):
                        opts.append(([], list(d)))
            else:
                for k in range(0, max_args + 1):
                    for a in itertools.product(cands, repeat=k):
                        if list(a) != sorted(a):
                            continue  # argument order among distinct predecessors is immaterial here
                        rest = [p for p in cands if p not in a]
                        for kd in range(0, len(rest) + 1):
                            for d in itertools.combinations(rest, kd):
                                opts.append((list(a), list(d)))
            per_node.append(opts)
        for combo in itertools.product(*per_node):
            wof, side = [0] * N, [0] * N
            for idx, r in enumerate(assign):
                if r == "depsrc":
                    wof[idx] = idx
                    side[idx - 1] = idx + 1
            s = {
                "N": N, "kind": ["lit" if r == "lit" else "call" for r in assign],
                "args": [c[0] for c in combo], "deps": [c[1] for c in combo],
                "reg": ["src" if r in ("src", "depsrc") else "stored" if r == "stored" else "none" for r in assign],
                "wof": wof, "side": side, "nkw": [0] * N, "norm": norm,
            }
            if wellformed(s):
                yield s


# --------------------------------------------------------------------------------------
# terms


def T(n, v, a):
    return {"n": n, "v": v, "a": list(a)}


NIL = T(-1, 0, [])


def norm_term(t):
    return T(0, 0, [t])


# --------------------------------------------------------------------------------------
# the universe: real Plan + Registry over term stores


class Cut(Exception):
    """Fault injected at the cut position (an ordinary exception)."""


class Dead(BaseException):
    """Every operation after a 'process died' cut: nothing has any effect any more."""


class CallFault(Exception):
    """A call function failing on purpose."""


class Universe:
    """One scenario built on the real library: plan, registry, stores, and a totally ordered event
    log (effects and their log records happen under one lock, so the log order is a linearization)."""

    def __init__(self, scn, make_lock=threading.Lock):
        import datetime as dt

        import uberjob

        self.scn = scn
        self.N = scn["N"]
        self.lock = make_lock()
        self.events = []
        self.clock = 0
        self.epoch = dt.datetime(2000, 1, 1)
        self.dt = dt
        # per-run fault state
        self.opcount = 0
        self.fault = None
        self.dead = False
        self.cut_hit = False
        self.fail_calls = {}
        self.fail_stores = {}
        self.inflight = 0
        self.max_inflight = 0
        self.all_inflight = 0      # calls + store reads/writes executing right now
        self.max_all_inflight = 0
        self.mt_inflight = 0       # modified-time queries executing right now
        self.max_mt_inflight = 0
        self.slow = 0.0            # seconds every operation lingers (so that operations overlap)
        self.attempts = {}         # (kind, node) -> attempts in this run
        self.last_exc = {}         # (kind, node) -> the exception object its last failed attempt raised
        self.injected = []         # every exception object the harness raised in this run
        self.in_call_hook = None
        self.present = {}
        self.value = {}
        self.rank = {}
        self.srcver = {}
        self.plan = uberjob.Plan()
        self.registry = uberjob.Registry()
        self.node = {}
        self.store = {}
        # file mode: some stores are the library's own file stores in a scratch directory, every instant is a real
        # one (file modified times / time.time()), writes are spaced so that instants are pairwise distinct
        self.files = scn.get("files")   # None | {"root": dir, "backing": [None|"json"|"pickle"|"text" per node], "gap": seconds}
        self.real = {}                  # node -> the bundled file store that holds its value
        self.tsf = {}                   # rank -> timestamp (float seconds) of the write that made that rank
        self._build()

    # ---- logging -------------------------------------------------------------------
    def log(self, e, **kw):
        kw["e"] = e
        self.events.append(kw)

    # ---- file mode ---------------------------------------------------------------------
    def _make_real(self, n):
        f = self.files
        if not f:
            return
        kind = f["backing"][n - 1]
        if not kind:
            return
        import pathlib

        from uberjob import stores as S

        cls = {"json": S.JsonFileStore, "pickle": S.PickleFileStore, "text": S.TextFileStore}[kind]
        path = os.path.join(f["root"], f"s{n}.{kind}")
        self.real[n] = (kind, cls(pathlib.Path(path) if n % 2 else path), path)

    def _materialise(self, n):
        """(lock held, bookkeeping done) perform the write `rank[n] = clock` for real and note its instant."""
        f = self.files
        if not f:
            return
        import json
        import time

        stamp = f.get("stamp", False)
        gap = 0 if stamp else f.get("gap", 0.003)
        if gap:
            time.sleep(gap)
        r = self.real.get(n)
        if stamp:
            # "stamped" file mode: the file's modified time is set explicitly (as cp -p, a restore from backup or a
            # synchronisation tool do) to the history's own instant - years away from when the file was really touched
            t = 978307200.0 + self.clock  # 2001-01-01T00:00:00Z + rank seconds
        if r is not None:
            kind, st, path = r
            v = self.value[n]
            st.write(json.dumps(v) if kind == "text" else v)
            if stamp:
                os.utime(path, (t, t))
            else:
                t = os.path.getmtime(path)
        elif not stamp:
            t = time.time()
        self.tsf[self.clock] = t
        if gap:
            time.sleep(gap)

    def _real_read(self, n):
        import json

        kind, st, _path = self.real[n]
        v = st.read()
        return json.loads(v) if kind == "text" else v

    def time_of(self, rank, n=None):
        """The datetime a store (n) or the caller (fresh_time, n=None) uses for the instant `rank`. With `tzmix`
        the same instants are written as naive local time of the process zone, as aware UTC or as aware
        datetimes with some other offset, chosen per store: staleness may depend on the instants only."""
        mix = getattr(self, "tzmix", None)
        if not mix and not self.files:
            return self.epoch + self.dt.timedelta(seconds=rank)
        dt = self.dt
        if self.files:
            ts = self.tsf[rank]  # the real instant of that write
        else:
            # 2000-01-15T00:00:00Z + rank seconds; or 2100-01-15 (a store whose clock runs ahead: stamps in the future)
            ts = (mix or {}).get("base", 947894400) + rank
        if not mix:
            return dt.datetime.fromtimestamp(ts)
        kind = mix["fresh"] if n is None else mix["kinds"][(n - 1) % len(mix["kinds"])]
        if kind == "naive":
            return dt.datetime.fromtimestamp(ts)
        if kind == "utc":
            return dt.datetime.fromtimestamp(ts, dt.timezone.utc)
        return dt.datetime.fromtimestamp(ts, dt.timezone(dt.timedelta(minutes=mix["off"])))

    # ---- fault plumbing (caller holds self.lock) ---------------------------------------
    def _op(self):
        if self.dead:
            raise Dead()
        self.opcount += 1
        f = self.fault
        if f and not self.cut_hit and f["at"] == self.opcount:
            return f
        return None

    def _trip(self, f, undo=None):
        self.cut_hit = True
        if undo is not None:
            # the operation took effect and now raises: with retry it may be attempted again, so for the
            # per-run bookkeeping of the monitor it has not been performed (the store effect stays)
            self.log("undo", k=undo[0], n=undo[1])
        self.log("cut", k=f["at"], mode=f["mode"])
        if f["mode"] == "dead":
            self.dead = True
            raise Dead()
        raise Cut(f"cut at op {f['at']}")

    def begin_run(self, fault=None, fail_calls=None, fail_stores=None):
        self.opcount = 0
        self.fault = fault
        self.dead = False
        self.cut_hit = False
        self.fail_calls = dict(fail_calls or {})
        self.fail_stores = dict(fail_stores or {})
        self.inflight = 0
        self.max_inflight = 0
        self.all_inflight = self.max_all_inflight = self.mt_inflight = self.max_mt_inflight = 0
        self.attempts, self.last_exc, self.injected = {}, {}, []

    # ---- C10 bookkeeping: what executes at the same time, attempts, raised exceptions ------
    def enter(self, kind, n):
        with self.lock:
            self.attempts[(kind, n)] = self.attempts.get((kind, n), 0) + 1
            if kind == "mtime":
                self.mt_inflight += 1
                self.max_mt_inflight = max(self.max_mt_inflight, self.mt_inflight)
            else:
                self.all_inflight += 1
                self.max_all_inflight = max(self.max_all_inflight, self.all_inflight)
        if self.slow:
            import time

            time.sleep(self.slow)

    def leave(self, kind, n):
        with self.lock:
            if kind == "mtime":
                self.mt_inflight -= 1
            else:
                self.all_inflight -= 1

    def raising(self, kind, n, exc):
        self.last_exc[(kind, n)] = exc
        self.injected.append(exc)
        return exc

    # ---- construction ----------------------------------------------------------------
    def _build(self):
        import uberjob

        s = self.scn
        U = self

        class TermStore(uberjob.ValueStore):
            def __init__(self, n):
                self.n = n

            def __bool__(self):
                # a store object may well be falsy (e.g. one that defines __len__ as the number of records it
                # holds): uberjob must ask `is None`, never rely on truthiness
                return not s.get("falsy_stores", False)

            def read(self):
                U.enter("read", self.n)
                try:
                    return self._read()
                finally:
                    U.leave("read", self.n)

            def write(self, value):
                U.enter("write", self.n)
                try:
                    return self._write(value)
                finally:
                    U.leave("write", self.n)

            def get_modified_time(self):
                U.enter("mtime", self.n)
                try:
                    return self._mtime()
                finally:
                    U.leave("mtime", self.n)

            def _read(self):
                n = self.n
                with U.lock:
                    f = U._op()
                    if f and f["when"] == "before":
                        U.log("readfail", n=n)
                        U._trip(f)
                    if U.fail_stores.get(("read", n), 0) > 0:
                        U.fail_stores[("read", n)] -= 1
                        U.log("readfail", n=n)
                        raise U.raising("read", n, OSError(f"injected read failure {n} attempt {U.attempts.get(('read', n))}"))
                    if not U.present.get(n):
                        U.log("readfail", n=n, missing=True)
                        raise FileNotFoundError(f"store {n} is empty")
                    v = U._real_read(n) if n in U.real else U.value[n]
                    if s.get("norm"):
                        v = norm_term(v)
                    U.log("read", n=n, v=enc(v))
                    if f:
                        U._trip(f, ("read", n))
                    return v

            def _write(self, value):
                n = self.n
                with U.lock:
                    f = U._op()
                    if f and f["when"] == "before":
                        U.log("writefail", n=n)
                        U._trip(f)
                    if U.fail_stores.get(("write", n), 0) > 0:
                        U.fail_stores[("write", n)] -= 1
                        U.log("writefail", n=n)
                        raise U.raising("write", n, OSError(f"injected write failure {n} attempt {U.attempts.get(('write', n))}"))
                    U.clock += 1
                    U.present[n] = True
                    U.value[n] = value
                    U.rank[n] = U.clock
                    U._materialise(n)
                    U.log("write", n=n, v=value if _is_term(value) else T(-2, 0, []), r=U.clock)
                    if f:
                        U._trip(f, ("write", n))

            def _mtime(self):
                n = self.n
                with U.lock:
                    f = U._op()
                    if f and f["when"] == "before":
                        U.log("mtimefail", n=n)
                        U._trip(f)
                    if U.fail_stores.get(("mtime", n), 0) > 0:
                        U.fail_stores[("mtime", n)] -= 1
                        U.log("mtimefail", n=n)
                        raise U.raising("mtime", n, OSError(f"injected mtime failure {n} attempt {U.attempts.get(('mtime', n))}"))
                    r = U.rank.get(n, 0) if U.present.get(n) else 0
                    U.log("mtime", n=n, r=r)
                    if f:
                        U._trip(f)
                    if n in U.real:
                        # whatever the library's own store reports: the decisions uberjob takes on it are what is checked
                        return U.real[n][1].get_modified_time()
                    return U.time_of(r, n) if r else None

            def __repr__(self):
                return f"TermStore({self.n})"

        def make_fn(c):
            sd = s["side"][c - 1]

            def f(*args, **kwargs):
                U.enter("call", c)
                try:
                    return body(*args, **kwargs)
                finally:
                    U.leave("call", c)

            def body(*args, **kwargs):
                with U.lock:
                    fl = U._op()
                    U.log("start", n=c)
                    U.inflight += 1
                    U.max_inflight = max(U.max_inflight, U.inflight)
                    if fl and fl["when"] == "before":
                        U.inflight -= 1
                        U.log("endfail", n=c)
                        U._trip(fl)
                hook = U.in_call_hook
                if hook:
                    hook(c)
                with U.lock:
                    U.inflight -= 1
                    if U.dead:
                        raise Dead()
                    if U.fail_calls.get(c, 0) > 0:
                        U.fail_calls[c] -= 1
                        U.log("endfail", n=c)
                        raise U.raising("call", c, CallFault(f"injected failure of call {c} attempt {U.attempts.get(('call', c))}"))
                    vals = list(args) + list(kwargs.values())
                    good = all(_is_term(x) for x in vals)
                    v = T(c, 0, vals) if good else T(-2, 0, [])
                    sv = NIL
                    if sd:
                        sv = T(sd, 0, vals) if good else T(-2, 0, [])
                        U.clock += 1
                        U.present[sd] = True
                        U.value[sd] = sv
                        U.rank[sd] = U.clock
                        U._materialise(sd)
                    U.log("end", n=c, v=v, sv=sv)
                    if fl:
                        U._trip(fl, ("call", c))
                    return v

            f.__name__ = f.__qualname__ = f"f{c}"
            f.__module__ = "vfcscen"
            return f

        import contextlib

        scopes = s.get("scopes") or [[]] * self.N
        deferred = []
        for i in range(1, self.N + 1):
          with self.plan.scope(*scopes[i - 1]) if scopes[i - 1] else contextlib.nullcontext():
              k, r = s["kind"][i - 1], s["reg"][i - 1]
              if k == "lit":
                  node = self.plan.lit(T(i, 0, []))
              elif r == "src":
                  st = TermStore(i)
                  self.store[i] = st
                  self._make_real(i)
                  node = self.registry.source(self.plan, st)
                  if not s["wof"][i - 1]:
                      self.clock += 1
                      self.present[i] = True
                      self.srcver[i] = 1
                      self.value[i] = T(i, 1, [])
                      self.rank[i] = self.clock
                      self._materialise(i)
              else:
                  a = [self.node[p] for p in s["args"][i - 1]]
                  nkw = (s.get("nkw") or [0] * self.N)[i - 1]
                  pos, kws = (a[: len(a) - nkw], a[len(a) - nkw:]) if nkw else (a, [])
                  node = self.plan.call(make_fn(i), *pos, **{f"k{j}": x for j, x in enumerate(kws)})
                  if r == "stored":
                      st = TermStore(i)
                      self.store[i] = st
                      self._make_real(i)
                      if s.get("reg_seed"):
                          deferred.append((node, st))  # registered later, in another order than creation
                      else:
                          self.registry.add(node, st)
              for p in s["deps"][i - 1]:
                  self.plan.add_dependency(self.node[p], node)
              self.node[i] = node
        if deferred:
            random.Random(s["reg_seed"]).shuffle(deferred)
            for node, st in deferred:
                self.registry.add(node, st)

    # ---- history-level operations (not through uberjob) ----------------------------------
    def update_source(self, n):
        with self.lock:
            self.clock += 1
            self.srcver[n] = self.srcver.get(n, 0) + 1
            self.present[n] = True
            self.value[n] = T(n, self.srcver[n], [])
            self.rank[n] = self.clock
            self._materialise(n)
            self.log("upd", n=n)

    def delete(self, n):
        with self.lock:
            self.present[n] = False
            self.value.pop(n, None)
            self.rank[n] = 0
            if n in self.real:
                try:
                    os.remove(self.real[n][2])
                except FileNotFoundError:
                    pass
            self.log("del", n=n)

    def can_delete(self, n):
        return bool(self.present.get(n))

    def output_arg(self, out, single_as_node=False):
        if not out:
            return None
        if single_as_node and len(out) == 1:
            return self.node[out[0]]
        return [self.node[i] for i in out]

    # ---- C13 digests -----------------------------------------------------------------
    def digest(self):
        return plan_digest(self.plan), registry_digest(self.registry)


def _is_term(x):
    """A well-formed term, all the way down (anything else - None from a skipped call, a foreign
    object - is logged as the bad term T(-2, 0, []) so that the monitor sees a wrong value)."""
    return (isinstance(x, dict) and set(x) == {"n", "v", "a"} and isinstance(x["n"], int) and isinstance(x["v"], int)
            and isinstance(x["a"], list) and all(_is_term(y) for y in x["a"]))


def enc(x):
    return x if _is_term(x) else T(-2, 0, [])


def edge_key_repr(k):
    t = type(k).__name__
    if t == "PositionalArg":
        return ("P", k.index)
    if t == "KeywordArg":
        return ("K", k.name, k.index)
    return ("D",)


def plan_digest(plan):
    """Structural digest of a Plan: node identities with their attributes, the edge multiset, the
    scope. Object identities are kept (ids) because the property says 'the same node objects'."""
    g = plan.graph
    nodes = []
    for nd in g.nodes():
        t = type(nd).__name__
        extra = (id(nd.fn), id(nd.stack_frame)) if t == "Call" else (id(nd.value),) if t == "Literal" else ()
        nodes.append((id(nd), t, getattr(nd, "scope", "<no scope>"), extra, tuple(sorted(map(repr, g.nodes[nd].items())))))
    edges = sorted((id(u), id(v), edge_key_repr(k), tuple(sorted(map(repr, d.items())))) for u, v, k, d in g.edges(keys=True, data=True))
    # any other attribute on the Plan object (a flag left set, ...) counts too
    # every other attribute of the Plan object, whatever it is called (the current scope, a flag left set, ...);
    # locks only by whether they are held
    extra = []
    for k, v in sorted(vars(plan).items()):
        if k == "graph":
            continue
        if hasattr(v, "acquire") and hasattr(v, "release"):
            lk = getattr(v, "locked", None)
            extra.append((k, "lock", bool(lk()) if callable(lk) else None))
        else:
            extra.append((k, repr(v)))
    return (tuple(nodes), tuple(edges), tuple(sorted(map(repr, g.graph.items()))), tuple(extra))


def registry_digest(reg):
    extra = tuple(sorted((k, repr(v)) for k, v in vars(reg).items() if k != "mapping"))
    return (id(reg.mapping), type(reg.mapping).__name__, extra,
            tuple((id(n), id(rv.value_store), rv.is_source, id(rv.stack_frame)) for n, rv in reg.mapping.items()))
