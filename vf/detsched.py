"""Deterministic cooperative scheduler for code written against `threading` / `queue.Queue`.

Real OS threads are used, but exactly one holds the *baton* at any time, so an execution is a
deterministic function of the scheduling strategy. Cooperative Lock/RLock/Thread are written
here; Condition/Event/Semaphore are CPython's own source executed on top of them (so the
behaviour of e.g. an interrupted `Condition.wait` is CPython's). A `sys.settrace` function
offers a preemption opportunity at every line (or bytecode) of the files in the preemption set.
"""
import _thread
import collections
import inspect
import itertools
import os
import sys
import threading as _rt
import traceback
import types


class DeadlockError(BaseException):
    pass


class BudgetExceeded(BaseException):
    pass


class _TS:
    """Scheduler-side state of one cooperative thread."""

    __slots__ = ("id", "name", "baton", "pred", "deadline", "done", "started", "is_main", "prio", "obj", "waiting_on")

    def __init__(self, tid, name, is_main=False):
        self.id = tid
        self.name = name
        self.baton = _thread.allocate_lock()
        self.baton.acquire()
        self.pred = None
        self.deadline = None
        self.done = False
        self.started = False
        self.is_main = is_main
        self.prio = 0
        self.obj = None
        self.waiting_on = None

    def __repr__(self):
        return f"T{self.id}"


# --------------------------------------------------------------------------------------
# strategies


class Strategy:
    """Default: run the current thread until it blocks, then the lowest-id runnable one."""

    def at_point(self, s, kind, info):
        return None

    def at_block(self, s, cands):
        return cands[0]

    def on_thread(self, s, ts):
        pass

    def spawn_fails(self, s, index):
        return False

    def interrupt_now(self, s, kind, info):
        """Asked when the main thread is at an injection site (primitive entry)."""
        return False

    def describe(self):
        return {"kind": "nonpreemptive"}


class RandomStrategy(Strategy):
    def __init__(self, rng, p=0.1):
        self.rng = rng
        self.p = p

    def at_point(self, s, kind, info):
        if self.rng.random() < self.p:
            c = s.runnable_others()
            if c:
                return c[self.rng.randrange(len(c))]
        return None

    def at_block(self, s, cands):
        return cands[self.rng.randrange(len(cands))]

    def describe(self):
        return {"kind": "random", "p": self.p}


class PCTStrategy(Strategy):
    """PCT (Burckhardt et al.): random thread priorities, d-1 priority change points."""

    def __init__(self, rng, depth=2, est_steps=1500):
        self.rng = rng
        self.depth = depth
        self.change = sorted(rng.randrange(est_steps) for _ in range(max(0, depth - 1)))
        self.low = 0

    def on_thread(self, s, ts):
        ts.prio = self.rng.random() + 1.0

    def _best(self, cands):
        return max(cands, key=lambda t: (t.prio, -t.id))

    def at_point(self, s, kind, info):
        while self.change and s.steps >= self.change[0]:
            self.change.pop(0)
            self.low -= 1
            s.current.prio = self.low
        c = s.runnable_others()
        if not c:
            return None
        b = self._best(c)
        return b if b.prio > s.current.prio else None

    def at_block(self, s, cands):
        return self._best(cands)

    def describe(self):
        return {"kind": "pct", "depth": self.depth}


class PreemptStrategy(Strategy):
    """Non-preemptive baseline plus forced switches: {step: thread id} (bounded preemption)."""

    def __init__(self, preempts=None, blocks=None):
        self.preempts = dict(preempts or {})
        self.blocks = dict(blocks or {})

    def at_point(self, s, kind, info):
        tid = self.preempts.get(s.steps)
        if tid is None:
            return None
        for t in s.runnable_others():
            if t.id == tid:
                return t
        return None

    def at_block(self, s, cands):
        tid = self.blocks.get(s.steps)
        if tid is not None:
            for t in cands:
                if t.id == tid:
                    return t
        return cands[0]

    def describe(self):
        return {"kind": "preempt", "preempts": sorted(self.preempts.items())}


class WithFaults(Strategy):
    """Decorates a strategy with environment faults: interrupt of the main thread and failing
    thread starts.

    interrupt: None | ("event", n, delay)  raise KeyboardInterrupt in the main thread once the
               n-th logged event (1-based, any kind in `interrupt_kinds`) has happened and `delay`
               further scheduler steps have passed
             | ("site", k)  at the k-th injection site the main thread passes (primitive entry)
    spawn_fail: set of 0-based thread start indices for which Thread.start raises RuntimeError
    """

    def __init__(self, inner, interrupt=None, spawn_fail=(), interrupt_kinds=("start",)):
        self.inner = inner
        self.interrupt = interrupt
        self.spawn_fail = set(spawn_fail)
        self.kinds = interrupt_kinds
        self._armed_at = None
        self._sites = 0
        self.fired = False

    def at_point(self, s, kind, info):
        self._tick(s)
        return self.inner.at_point(s, kind, info)

    def at_block(self, s, cands):
        self._tick(s)
        return self.inner.at_block(s, cands)

    def on_thread(self, s, ts):
        self.inner.on_thread(s, ts)

    def spawn_fails(self, s, index):
        return index in self.spawn_fail

    def _tick(self, s):
        it = self.interrupt
        if self.fired or not it or it[0] != "event":
            return
        if self._armed_at is None:
            if s.event_count(self.kinds) >= it[1]:
                self._armed_at = s.steps + it[2]
        if self._armed_at is not None and s.steps >= self._armed_at:
            self.fired = True
            s.post_interrupt()

    def interrupt_now(self, s, kind, info):
        it = self.interrupt
        if self.fired or not it or it[0] != "site":
            return False
        self._sites += 1
        if self._sites == it[1]:
            self.fired = True
            return True
        return False

    def describe(self):
        d = self.inner.describe()
        d["interrupt"] = self.interrupt
        d["spawn_fail"] = sorted(self.spawn_fail)
        return d


# --------------------------------------------------------------------------------------
# the scheduler


class Scheduler:
    def __init__(self, strategy=None, preempt_files=(), opcode=False, step_budget=400000, timers="idle"):
        self.strategy = strategy or Strategy()
        self.preempt_files = tuple(preempt_files)
        self.opcode = opcode
        self.step_budget = step_budget
        self.timers = timers
        self.threads = []
        self.current = None
        self.main = None
        self.now = 1000.0
        self.steps = 0
        self.seq = 0
        self.events = []
        self.switches = 0
        self.preemptions = 0
        self.max_runnable = 1
        self.settle_main = False  # after an interrupt: run main until it first blocks
        self.dead = None  # ("deadlock"|"budget", details) once the execution is stuck
        self.pending_interrupt = False
        self.interrupts_delivered = 0
        self.spawn_index = 0
        self.sched_log = []  # (step, from, to)
        self._flags = {}
        self._idle_advances = 0
        self._kind_counts = collections.Counter()
        self.ns = _make_namespace(self)

    # ---- events (observable trace) ----
    def log(self, ev, **kw):
        self.seq += 1
        kw["ev"] = ev
        kw["seq"] = self.seq
        kw["th"] = self.current.id if self.current else 0
        self.events.append(kw)
        self._kind_counts[ev] += 1
        return kw

    def event_count(self, kinds):
        return sum(self._kind_counts[k] for k in kinds)

    # ---- thread bookkeeping ----
    def _register(self, name, is_main=False, obj=None):
        ts = _TS(len(self.threads), name, is_main)
        ts.obj = obj
        self.threads.append(ts)
        self.strategy.on_thread(self, ts)
        return ts

    def _is_runnable(self, t):
        if t.done or not t.started:
            return False
        if t.pred is None:
            return True
        if t.is_main and self.pending_interrupt:
            return True
        if t.pred():
            return True
        if t.deadline is not None and (self.timers == "any" or self.now >= t.deadline):
            return True
        return False

    def runnable_others(self):
        cur = self.current
        return [t for t in self.threads if t is not cur and self._is_runnable(t)]

    def post_interrupt(self):
        self.pending_interrupt = True

    # ---- switching ----
    def _handoff(self, cur, nxt):
        self.switches += 1
        if len(self.sched_log) < 20000:
            self.sched_log.append((self.steps, cur.id, nxt.id))
        self.current = nxt
        nxt.baton.release()
        cur.baton.acquire()
        # resumed
        if self.dead and cur.is_main:
            raise DeadlockError(self.dead[0])

    def _check_budget(self):
        self.steps += 1
        if self.steps > self.step_budget and not self.dead:
            self._declare_dead("budget")

    def _declare_dead(self, why):
        frames = sys._current_frames()
        stacks = {}
        for t in self.threads:
            if t.done:
                continue
            ident = t.obj.ident if t.obj is not None else None
            fr = frames.get(ident)
            if fr is not None:
                st = traceback.extract_stack(fr)
                stacks[f"T{t.id}:{t.name}"] = [
                    f"{os.path.basename(f.filename)}:{f.lineno}:{f.name}" for f in st[-8:]
                ]
        self.dead = (why, stacks)
        cur = self.current
        if cur.is_main:
            raise DeadlockError(why)
        # wake main so that it can report; this thread is parked forever
        self.current = self.main
        self.main.baton.release()
        cur.baton.acquire()
        raise DeadlockError(why)  # pragma: no cover

    def point(self, kind="line", info=None, inject=False):
        """A preemption opportunity: the current thread stays runnable."""
        if self.dead:
            if self.current.is_main:
                raise DeadlockError(self.dead[0])
            return
        self._check_budget()
        cur = self.current
        if cur.is_main and inject:
            if self.pending_interrupt or self.strategy.interrupt_now(self, kind, info):
                self.pending_interrupt = False
                self.interrupts_delivered += 1
                self.log("interrupt", site=kind)
                self.settle_main = True
                raise KeyboardInterrupt()
        if self.settle_main:
            if cur.is_main:
                return
            # a worker is running although main is runnable: give main priority until it blocks
            if self._is_runnable(self.main):
                self._handoff(cur, self.main)
                return
        nxt = self.strategy.at_point(self, kind, info)
        if nxt is not None and nxt is not cur:
            self.preemptions += 1
            self._handoff(cur, nxt)

    def block_until(self, pred, timeout=None, what=None, inject=True):
        """Block the current thread until pred() holds (True) or the virtual timeout expires
        (False)."""
        cur = self.current
        if pred():
            return True
        if self.dead:
            raise DeadlockError(self.dead[0])
        if self.settle_main and cur.is_main:
            self.settle_main = False
            self.log("main_settled")
        cur.pred = pred
        cur.waiting_on = what
        cur.deadline = None if timeout is None else self.now + max(0.0, timeout)
        try:
            while True:
                if cur.is_main and inject and self.pending_interrupt:
                    self.pending_interrupt = False
                    self.interrupts_delivered += 1
                    self.log("interrupt", site="blocked")
                    self.settle_main = True
                    raise KeyboardInterrupt()
                if pred():
                    return True
                if cur.deadline is not None and self.now >= cur.deadline:
                    return False
                self._check_budget()
                cands = self.runnable_others()
                if self.timers == "any" and cur.deadline is not None:
                    # this thread's own timeout may fire too
                    pass
                if not cands:
                    dls = [t.deadline for t in self.threads if not t.done and t.started and t.pred is not None and t.deadline is not None]
                    if dls:
                        self._idle_advances += 1
                        if self._idle_advances > 5000:
                            self._declare_dead("deadlock")
                        self.now = max(self.now, min(dls))
                        continue
                    self._declare_dead("deadlock")
                if len(cands) + 0 > self.max_runnable:
                    self.max_runnable = len(cands)
                nxt = self.strategy.at_block(self, cands)
                if nxt.pred is not None and nxt.deadline is not None and not nxt.pred() and self.now < nxt.deadline:
                    self.now = nxt.deadline  # timers == "any": let its timeout fire
                if nxt.pred is None or nxt.deadline is None:
                    self._idle_advances = 0
                self._handoff(cur, nxt)
        finally:
            cur.pred = None
            cur.deadline = None
            cur.waiting_on = None

    def _thread_finished(self, ts):
        ts.done = True
        if self.dead:
            return
        cands = self.runnable_others()
        while not cands:
            live = [t for t in self.threads if not t.done and t.started]
            if not live:
                return
            dls = [t.deadline for t in live if t.pred is not None and t.deadline is not None]
            if dls:
                self._idle_advances += 1
                if self._idle_advances <= 5000:
                    self.now = max(self.now, min(dls))
                    cands = self.runnable_others()
                    continue
            # everybody else is blocked for good: report through main
            frames_why = "deadlock"
            try:
                self._declare_dead(frames_why)
            except DeadlockError:
                return
            return
        nxt = self.strategy.at_block(self, cands)
        if nxt.pred is not None and nxt.deadline is not None and not nxt.pred() and self.now < nxt.deadline:
            self.now = nxt.deadline
        self.switches += 1
        self.current = nxt
        nxt.baton.release()

    # ---- tracing ----
    def _wants(self, filename):
        f = self._flags.get(filename)
        if f is None:
            f = any(filename.endswith(sfx) for sfx in self.preempt_files)
            self._flags[filename] = f
        return f

    def _global_trace(self, frame, event, arg):
        if not self._wants(frame.f_code.co_filename):
            return None
        if self.opcode:
            frame.f_trace_opcodes = True
        return self._local_trace

    def _local_trace(self, frame, event, arg):
        if event == ("opcode" if self.opcode else "line"):
            self.point("line", None)
        return self._local_trace

    # ---- running ----
    def run(self, fn):
        """Run fn() as the main cooperative thread. Returns a dict describing the outcome."""
        main = self._register("main", is_main=True, obj=_rt.current_thread())
        main.started = True
        self.main = main
        self.current = main
        out = {"outcome": None, "value": None, "exc": None}
        patches = _install(self)
        sys.settrace(self._global_trace)
        try:
            try:
                out["value"] = fn()
                out["outcome"] = "returned"
            except DeadlockError as e:
                out["outcome"] = "hang"
            except BaseException as e:  # noqa
                out["outcome"] = "raised"
                out["exc"] = e
            if self.settle_main:
                self.settle_main = False
                self.log("main_settled")
            out["seq_at_return"] = self.seq
            out["alive_at_return"] = [t.id for t in self.threads if not t.is_main and t.started and not t.done]
            if not self.dead:
                sys.settrace(None)
                try:
                    self.block_until(
                        lambda: all(t.done or not t.started for t in self.threads if not t.is_main),
                        inject=False,
                    )
                except DeadlockError:
                    pass
            out["events_after_return"] = self.seq - out["seq_at_return"]
        finally:
            sys.settrace(None)
            _uninstall(patches)
        out["dead"] = self.dead
        out["steps"] = self.steps
        out["switches"] = self.switches
        out["max_runnable"] = self.max_runnable
        out["threads"] = len(self.threads)
        out["leaked"] = [t.id for t in self.threads if not t.is_main and t.started and not t.done]
        return out


# --------------------------------------------------------------------------------------
# cooperative primitives


_COOP_CODE = None


def _coop_code():
    global _COOP_CODE
    if _COOP_CODE is None:
        src = "\n\n".join(
            inspect.getsource(getattr(_rt, n))
            for n in ("Condition", "Semaphore", "BoundedSemaphore", "Event")
        )
        _COOP_CODE = compile(src, "<vf_coop_threading>", "exec")
    return _COOP_CODE


def _make_namespace(s: Scheduler):
    class Lock:
        __slots__ = ("held",)

        def __init__(self):
            self.held = False

        def acquire(self, blocking=True, timeout=-1):
            s.point("acquire", None, inject=True)
            if not self.held:
                self.held = True
                return True
            if not blocking:
                return False
            ok = s.block_until(lambda: not self.held, None if timeout is None or timeout < 0 else timeout, what=self)
            if ok:
                self.held = True
                return True
            return False

        def release(self):
            if not self.held:
                raise RuntimeError("release unlocked lock")
            self.held = False
            s.point("release", None)

        def locked(self):
            return self.held

        def __enter__(self):
            self.acquire()
            return True

        def __exit__(self, *a):
            self.release()

        def _at_fork_reinit(self):
            self.held = False

    class RLock:
        __slots__ = ("owner", "count")

        def __init__(self):
            self.owner = None
            self.count = 0

        def acquire(self, blocking=True, timeout=-1):
            me = s.current
            if self.owner is me:
                self.count += 1
                return True
            s.point("acquire", None, inject=True)
            if self.owner is None:
                self.owner, self.count = me, 1
                return True
            if not blocking:
                return False
            ok = s.block_until(lambda: self.owner is None, None if timeout is None or timeout < 0 else timeout, what=self)
            if ok:
                self.owner, self.count = me, 1
                return True
            return False

        def release(self):
            if self.owner is not s.current:
                raise RuntimeError("cannot release un-acquired lock")
            self.count -= 1
            if self.count == 0:
                self.owner = None
                s.point("release", None)

        def __enter__(self):
            self.acquire()
            return True

        def __exit__(self, *a):
            self.release()

        def _release_save(self):
            st = (self.count, self.owner)
            self.count, self.owner = 0, None
            return st

        def _acquire_restore(self, st):
            s.block_until(lambda: self.owner is None, what=self, inject=False)
            self.count, self.owner = st

        def _is_owned(self):
            return self.owner is s.current

    def vtime():
        return s.now

    class Thread(_rt.Thread):
        def __init__(self, group=None, target=None, name=None, args=(), kwargs=None, *, daemon=None):
            super().__init__(group=group, target=target, name=name, args=args, kwargs=kwargs, daemon=True)
            self._vf_ts = None

        def start(self):
            idx = s.spawn_index
            s.spawn_index += 1
            s.point("thread_start", None, inject=True)
            if s.strategy.spawn_fails(s, idx):
                s.log("spawn_fail", index=idx)
                raise RuntimeError("can't start new thread")
            ts = s._register(self.name, obj=self)
            self._vf_ts = ts
            ts.started = True
            _rt.Thread.start(self)
            # the OS thread exists now, but start() has not returned to the caller yet
            s.point("thread_started", None, inject=True)

        def run(self):
            ts = self._vf_ts
            ts.baton.acquire()
            try:
                if not s.dead:
                    sys.settrace(s._global_trace)
                    try:
                        _rt.Thread.run(self)
                    finally:
                        sys.settrace(None)
            except DeadlockError:
                return
            finally:
                if not s.dead:
                    s._thread_finished(ts)

        def join(self, timeout=None):
            ts = self._vf_ts
            if ts is None:
                raise RuntimeError("cannot join thread before it is started")
            s.point("join", None, inject=True)
            s.block_until(lambda: ts.done, timeout, what=self)

        def is_alive(self):
            ts = self._vf_ts
            return ts is not None and ts.started and not ts.done

    ns = types.SimpleNamespace()
    g = {
        "_allocate_lock": Lock,
        "Lock": Lock,
        "RLock": RLock,
        "_time": vtime,
        "_deque": collections.deque,
        "_islice": itertools.islice,
        "get_ident": _thread.get_ident,
        "__name__": "vf_coop_threading",
    }
    exec(_coop_code(), g)
    ns.Lock = Lock
    ns._allocate_lock = Lock
    ns.RLock = RLock
    ns.Condition = g["Condition"]
    ns.Event = g["Event"]
    ns.Semaphore = g["Semaphore"]
    ns.BoundedSemaphore = g["BoundedSemaphore"]
    ns.Thread = Thread
    ns.current_thread = _rt.current_thread
    ns.main_thread = _rt.main_thread
    ns.get_ident = _thread.get_ident
    ns.enumerate = _rt.enumerate
    ns.active_count = _rt.active_count
    ns.local = _rt.local
    ns.vtime = vtime

    class _VTime(types.SimpleNamespace):
        pass

    import time as _realtime

    vt = _VTime()
    for k in dir(_realtime):
        if not k.startswith("__"):
            setattr(vt, k, getattr(_realtime, k))
    vt.time = vtime
    vt.monotonic = vtime
    vt.perf_counter = vtime

    def vsleep(d):
        s.block_until(lambda: False, d, inject=True)

    vt.sleep = vsleep
    ns.time_module = vt
    return ns


# modules whose `threading` (and clock) globals are redirected while a scheduler is active
_PATCH_TARGETS = (
    ("queue", "threading", "ns"),
    ("queue", "time", "vtime"),
    ("uberjob._execution.run_function_on_graph", "threading", "ns"),
    ("uberjob.progress._simple_progress_observer", "threading", "ns"),
    ("uberjob.progress._simple_progress_observer", "time", "time_module"),
)


def _install(s: Scheduler):
    import importlib

    saved = []
    for modname, attr, what in _PATCH_TARGETS:
        try:
            mod = importlib.import_module(modname)
        except Exception:
            continue
        if not hasattr(mod, attr):
            continue
        new = s.ns if what == "ns" else getattr(s.ns, what)
        saved.append((mod, attr, getattr(mod, attr)))
        setattr(mod, attr, new)
    return saved


def _uninstall(saved):
    for mod, attr, old in reversed(saved):
        setattr(mod, attr, old)


ENGINE_FILES = (
    "uberjob/_execution/run_function_on_graph.py",
    "uberjob/_execution/scheduler.py",
    "uberjob/_execution/run_physical.py",
    "/queue.py",
)
CACHING_FILES = ENGINE_FILES + (
    "uberjob/_transformations/caching.py",
    "uberjob/_util/retry.py",
)
