"""Deterministic cooperative scheduler for code written against `threading` / `queue.Queue`.

Real OS threads are used, but exactly one holds the *baton* at any time, so an execution is a
deterministic function of the scheduling strategy. Cooperative Lock/RLock/Thread are written
here; Condition/Event/Semaphore are CPython's own source executed on top of them (so the
behaviour of e.g. an interrupted `Condition.wait` is CPython's). sys.monitoring LINE (or
INSTRUCTION) events offer a preemption opportunity at every line (or bytecode) of the files in
the preemption set.
"""
import _thread
import collections
import inspect
import itertools
import os
import sys
import threading as _rt
import traceback
import types


_DEBUG = bool(os.environ.get('VERIF_DEBUG_LOCKS'))
_HIST = {}


class DeadlockError(BaseException):
    pass


class HarnessDrift(Exception):
    """The code under test no longer has the shape the harness interposes on (never a property verdict)."""


class BudgetExceeded(BaseException):
    pass


class _TS:
    """Scheduler-side state of one cooperative thread."""

    __slots__ = ("id", "name", "baton", "pred", "deadline", "done", "started", "is_main", "prio", "obj", "waiting_on", "in_get", "ident_published", "start_interrupted")

    def __init__(self, tid, name, is_main=False):
        self.id = tid
        self.name = name
        self.baton = _thread.allocate_lock()
        self.baton.acquire()
        self.pred = None
        self.deadline = None
        self.done = False
        self.started = False
        self.is_main = is_main
        self.prio = 0
        self.obj = None
        self.waiting_on = None
        self.in_get = False
        self.ident_published = True
        self.start_interrupted = False

    def __repr__(self):
        return f"T{self.id}"


# --------------------------------------------------------------------------------------
# strategies


class Strategy:
    """Default: run the current thread until it blocks, then the lowest-id runnable one."""

    def at_point(self, s, kind, info):
        return None

    def at_block(self, s, cands):
        return cands[0]

    def on_thread(self, s, ts):
        pass

    def spawn_fails(self, s, index):
        return False

    def interrupt_now(self, s, kind, info):
        """Asked when the main thread is at an injection site (primitive entry)."""
        return False

    def describe(self):
        return {"kind": "nonpreemptive"}


class RandomStrategy(Strategy):
    def __init__(self, rng, p=0.1):
        self.rng = rng
        self.p = p

    def at_point(self, s, kind, info):
        if self.rng.random() < self.p:
            c = s.runnable_others()
            if c:
                return c[self.rng.randrange(len(c))]
        return None

    def at_block(self, s, cands):
        return cands[self.rng.randrange(len(cands))]

    def describe(self):
        return {"kind": "random", "p": self.p}


class PCTStrategy(Strategy):
    """PCT (Burckhardt et al.): random thread priorities, d-1 priority change points."""

    def __init__(self, rng, depth=2, est_steps=1500):
        self.rng = rng
        self.depth = depth
        self.change = sorted(rng.randrange(est_steps) for _ in range(max(0, depth - 1)))
        self.low = 0

    def on_thread(self, s, ts):
        ts.prio = self.rng.random() + 1.0

    def _best(self, cands):
        return max(cands, key=lambda t: (t.prio, -t.id))

    def at_point(self, s, kind, info):
        while self.change and s.steps >= self.change[0]:
            self.change.pop(0)
            self.low -= 1
            s.current.prio = self.low
        c = s.runnable_others()
        if not c:
            return None
        b = self._best(c)
        return b if b.prio > s.current.prio else None

    def at_block(self, s, cands):
        return self._best(cands)

    def describe(self):
        return {"kind": "pct", "depth": self.depth}


class ReleaseYieldStrategy(Strategy):
    """Atomicity-violation hunter: whenever a thread releases a lock it is, with probability q,
    *parked* - every other thread is preferred until all of them block (or `horizon` steps pass).
    This drives another thread through the same critical section inside the window between the
    release and whatever the releasing thread does next (a check-then-act moved out of the lock)."""

    def __init__(self, rng, q=0.3, horizon=600, p=0.03):
        self.rng = rng
        self.q = q
        self.horizon = horizon
        self.p = p
        self.parked = {}

    def _free(self, s, cands):
        for tid in [t for t, lim in self.parked.items() if s.steps > lim]:
            del self.parked[tid]
        return [t for t in cands if t.id not in self.parked]

    def at_point(self, s, kind, info):
        cur = s.current
        if kind == "call" and self.parked and self.rng.random() < 0.5:
            # inside a user function: let parked threads overlap with it
            self.parked.clear()
            others = s.runnable_others()
            if others:
                return others[self.rng.randrange(len(others))]
        if kind == "release" and self.rng.random() < self.q:
            self.parked[cur.id] = s.steps + self.horizon
        others = self._free(s, s.runnable_others())
        if cur.id in self.parked:
            if others:
                return others[self.rng.randrange(len(others))]
            return None
        if others and self.rng.random() < self.p:
            return others[self.rng.randrange(len(others))]
        return None

    def at_block(self, s, cands):
        free = self._free(s, cands)
        if not free:
            self.parked.clear()
            free = cands
        return free[self.rng.randrange(len(free))]

    def describe(self):
        return {"kind": "relyield", "q": self.q}


class PreemptStrategy(Strategy):
    """Non-preemptive baseline plus forced switches: {step: thread id} (bounded preemption)."""

    def __init__(self, preempts=None, blocks=None, yield_in_call=False):
        self.preempts = dict(preempts or {})
        self.blocks = dict(blocks or {})
        self.yield_in_call = yield_in_call  # a user call takes long: everybody else runs meanwhile

    def at_point(self, s, kind, info):
        tid = self.preempts.get(s.steps)
        if tid is None:
            if self.yield_in_call and kind == "call":
                c = s.runnable_others()
                if c:
                    return c[0]
            return None
        for t in s.runnable_others():
            if t.id == tid:
                return t
        return None

    def at_block(self, s, cands):
        tid = self.blocks.get(s.steps)
        if tid is not None:
            for t in cands:
                if t.id == tid:
                    return t
        return cands[0]

    def describe(self):
        return {"kind": "preempt", "preempts": sorted(self.preempts.items()), "yic": self.yield_in_call}


class WithFaults(Strategy):
    """Decorates a strategy with environment faults: interrupt of the main thread and failing
    thread starts.

    interrupt: None | ("event", n, delay)  raise KeyboardInterrupt in the main thread once the
               n-th logged event (1-based, any kind in `interrupt_kinds`) has happened and `delay`
               further scheduler steps have passed
             | ("site", k)  at the k-th injection site the main thread passes (primitive entry)
             | ("site_running", k)  at the k-th such site passed while a call is executing
    spawn_fail: set of 0-based thread start indices for which Thread.start raises RuntimeError
    """

    def __init__(self, inner, interrupt=None, spawn_fail=(), interrupt_kinds=("start",)):
        self.inner = inner
        self.interrupt = interrupt
        self.spawn_fail = set(spawn_fail)
        self.kinds = interrupt_kinds
        self._armed_at = None
        self._sites = 0
        self.fired = False

    def at_point(self, s, kind, info):
        self._tick(s)
        return self.inner.at_point(s, kind, info)

    def at_block(self, s, cands):
        self._tick(s)
        return self.inner.at_block(s, cands)

    def on_thread(self, s, ts):
        self.inner.on_thread(s, ts)

    def spawn_fails(self, s, index):
        return index in self.spawn_fail

    def _tick(self, s):
        it = self.interrupt
        if self.fired or not it or it[0] != "event":
            return
        if self._armed_at is None:
            if s.event_count(self.kinds) >= it[1]:
                self._armed_at = s.steps + it[2]
        if self._armed_at is not None and s.steps >= self._armed_at:
            self.fired = True
            s.post_interrupt()

    def interrupt_now(self, s, kind, info):
        it = self.interrupt
        if self.fired or not it or it[0] not in ("site", "site_running"):
            return False
        if it[0] == "site_running" and s.running_calls <= 0:
            return False
        self._sites += 1
        if self._sites == it[1]:
            self.fired = True
            return True
        return False

    def describe(self):
        d = self.inner.describe()
        d["interrupt"] = self.interrupt
        d["spawn_fail"] = sorted(self.spawn_fail)
        return d


# --------------------------------------------------------------------------------------
# the scheduler


class Scheduler:
    def __init__(self, strategy=None, preempt_files=(), opcode=False, step_budget=400000, timers="idle"):
        self.strategy = strategy or Strategy()
        self.preempt_files = tuple(preempt_files)
        self.opcode = opcode
        self.step_budget = step_budget
        self.timers = timers
        self.threads = []
        self.current = None
        self.main = None
        self.now = 1000.0
        self.steps = 0
        self.engine_release_steps = []  # steps at which a lock created by the engine itself was released
        self.seq = 0
        self.events = []
        self.switches = 0
        self.preemptions = 0
        self.running_calls = 0
        self.max_runnable = 1
        self.settle_main = False  # after an interrupt: run main until it first blocks
        self.dead = None  # ("deadlock"|"budget", details) once the execution is stuck
        self.pending_interrupt = False
        self.interrupts_delivered = 0
        self.spawn_index = 0
        self.sched_log = []  # (step, from, to)
        self._idle_advances = 0
        self._kind_counts = collections.Counter()
        self.ns = _make_namespace(self)

    # ---- events (observable trace) ----
    def _workers_outside_get(self):
        """Worker threads that are not blocked inside queue.Queue.get: only those can already be past
        the engine's stop check when the calling thread starts its clean-up."""
        return sum(1 for t in self.threads if not t.is_main and t.started and not t.done and not t.in_get)

    def log(self, ev, **kw):
        self.seq += 1
        kw["ev"] = ev
        kw["seq"] = self.seq
        kw["th"] = self.current.id if self.current else 0
        self.events.append(kw)
        self._kind_counts[ev] += 1
        if ev == "start":
            self.running_calls += 1
        elif ev == "end":
            self.running_calls -= 1
        return kw

    def event_count(self, kinds):
        return sum(self._kind_counts[k] for k in kinds)

    # ---- thread bookkeeping ----
    def _register(self, name, is_main=False, obj=None):
        ts = _TS(len(self.threads), name, is_main)
        ts.obj = obj
        self.threads.append(ts)
        self.strategy.on_thread(self, ts)
        return ts

    def _is_runnable(self, t):
        if t.done or not t.started:
            return False
        if t.pred is None:
            return True
        if t.is_main and self.pending_interrupt:
            return True
        if t.pred():
            return True
        if t.deadline is not None and (self.timers == "any" or self.now >= t.deadline):
            return True
        return False

    def runnable_others(self):
        cur = self.current
        return [t for t in self.threads if t is not cur and self._is_runnable(t)]

    def post_interrupt(self):
        self.pending_interrupt = True

    # ---- switching ----
    def _handoff(self, cur, nxt):
        self.switches += 1
        if len(self.sched_log) < 20000:
            self.sched_log.append((self.steps, cur.id, nxt.id))
        self.current = nxt
        nxt.baton.release()
        cur.baton.acquire()
        # resumed
        if self.dead and cur.is_main:
            raise DeadlockError(self.dead[0])

    def _check_budget(self):
        self.steps += 1
        if self.steps > self.step_budget and not self.dead:
            self._declare_dead("budget")

    def _declare_dead(self, why):
        frames = sys._current_frames()
        stacks = {}
        for t in self.threads:
            if t.done:
                continue
            ident = t.obj._ident if t.obj is not None else None
            fr = frames.get(ident)
            if fr is not None:
                st = traceback.extract_stack(fr)
                stacks[f"T{t.id}:{t.name}"] = [
                    f"{os.path.basename(f.filename)}:{f.lineno}:{f.name}" for f in st[-8:]
                ]
        self.dead = (why, stacks)
        cur = self.current
        if cur.is_main:
            raise DeadlockError(why)
        # wake main so that it can report; this thread is parked forever
        self.current = self.main
        self.main.baton.release()
        cur.baton.acquire()
        raise DeadlockError(why)  # pragma: no cover

    def point(self, kind="line", info=None, inject=False):
        """A preemption opportunity: the current thread stays runnable."""
        if self.dead:
            if self.current.is_main:
                raise DeadlockError(self.dead[0])
            return
        self._check_budget()
        if kind == "release" and info and "uberjob/_execution/" in info.replace("\\", "/"):
            self.engine_release_steps.append(self.steps)
        cur = self.current
        if _DEBUG and cur.obj._ident != _thread.get_ident():
            sys.stderr.write("ROGUE in point: current=%r me=%r kind=%s\n%s\n" % (cur, [t for t in self.threads if t.obj._ident == _thread.get_ident()], kind, "".join(traceback.format_stack(limit=12))))
        if cur.is_main and inject:
            if self.pending_interrupt or self.strategy.interrupt_now(self, kind, info):
                self.pending_interrupt = False
                self.interrupts_delivered += 1
                self.log("interrupt", site=kind)
                self.settle_main = True
                raise KeyboardInterrupt()
        if self.settle_main:
            if cur.is_main:
                if not (inject and kind == "acquire" and info and info.replace("\\", "/").endswith("/queue.py")):
                    return
                # the first lock *of the work queue* the calling thread takes after the interrupt: that is
                # queue.put(DONE) in shutdown(), after the stop flag was set (whatever else the clean-up
                # locks before). From here on the calling thread is scheduled like any other.
                self.settle_main = False
                self.log("main_settled", outside_get=self._workers_outside_get())
            # a worker is running although main is runnable: give main priority until it settles
            elif self._is_runnable(self.main):
                self._handoff(cur, self.main)
                return
        nxt = self.strategy.at_point(self, kind, info)
        if nxt is not None and nxt is not cur:
            if nxt.pred is not None and nxt.deadline is not None and not nxt.pred() and self.now < nxt.deadline:
                self.now = nxt.deadline  # timers == "any": time passes while `cur` is busy; let the sleeper's timeout fire
            self.preemptions += 1
            self._handoff(cur, nxt)

    def block_until(self, pred, timeout=None, what=None, inject=True):
        """Block the current thread until pred() holds (True) or the virtual timeout expires
        (False)."""
        cur = self.current
        if _DEBUG and cur.obj._ident != _thread.get_ident():
            sys.stderr.write("ROGUE in block_until: current=%r me=%r\n%s\n" % (cur, [t for t in self.threads if t.obj._ident == _thread.get_ident()], "".join(traceback.format_stack(limit=12))))
        if pred():
            return True
        if self.dead:
            raise DeadlockError(self.dead[0])
        if self.settle_main and cur.is_main and inject:
            # (blocking inside Condition.wait's internal re-acquire is not yet uberjob's clean-up)
            self.settle_main = False
            self.log("main_settled", outside_get=self._workers_outside_get())
        cur.pred = pred
        cur.waiting_on = what
        cur.deadline = None if timeout is None else self.now + max(0.0, timeout)
        try:
            while True:
                if cur.is_main and inject and self.pending_interrupt:
                    self.pending_interrupt = False
                    self.interrupts_delivered += 1
                    self.log("interrupt", site="blocked")
                    self.settle_main = True
                    raise KeyboardInterrupt()
                if pred():
                    return True
                if cur.deadline is not None and self.now >= cur.deadline:
                    return False
                self._check_budget()
                cands = self.runnable_others()
                if self.timers == "any" and cur.deadline is not None:
                    # this thread's own timeout may fire too
                    pass
                if not cands:
                    dls = [t.deadline for t in self.threads if not t.done and t.started and t.pred is not None and t.deadline is not None]
                    if dls:
                        self._idle_advances += 1
                        if self._idle_advances > 5000:
                            self._declare_dead("deadlock")
                        self.now = max(self.now, min(dls))
                        continue
                    self._declare_dead("deadlock")
                if len(cands) + 0 > self.max_runnable:
                    self.max_runnable = len(cands)
                nxt = self.strategy.at_block(self, cands)
                if nxt.pred is not None and nxt.deadline is not None and not nxt.pred() and self.now < nxt.deadline:
                    self.now = nxt.deadline  # timers == "any": let its timeout fire
                if nxt.pred is None or nxt.deadline is None:
                    self._idle_advances = 0
                self._handoff(cur, nxt)
        finally:
            cur.pred = None
            cur.deadline = None
            cur.waiting_on = None

    def _thread_finished(self, ts):
        ts.done = True
        if self.dead:
            return
        cands = self.runnable_others()
        while not cands:
            live = [t for t in self.threads if not t.done and t.started]
            if not live:
                return
            dls = [t.deadline for t in live if t.pred is not None and t.deadline is not None]
            if dls:
                self._idle_advances += 1
                if self._idle_advances <= 5000:
                    self.now = max(self.now, min(dls))
                    cands = self.runnable_others()
                    continue
            # everybody else is blocked for good: report through main
            frames_why = "deadlock"
            try:
                self._declare_dead(frames_why)
            except DeadlockError:
                return
            return
        nxt = self.strategy.at_block(self, cands)
        if nxt.pred is not None and nxt.deadline is not None and not nxt.pred() and self.now < nxt.deadline:
            self.now = nxt.deadline
        self.switches += 1
        self.current = nxt
        nxt.baton.release()

    # ---- preemption points: see _Monitor below ----
    def _on_line(self):
        self.point("line", None)

    # ---- running ----
    def run(self, fn):
        """Run fn() as the main cooperative thread. Returns a dict describing the outcome."""
        main = self._register("main", is_main=True, obj=_rt.current_thread())
        main.started = True
        self.main = main
        self.current = main
        out = {"outcome": None, "value": None, "exc": None}
        patches = _install(self)
        _Monitor.activate(self)
        before = set(_rt.enumerate())
        try:
            try:
                out["value"] = fn()
                out["outcome"] = "returned"
            except DeadlockError as e:
                out["outcome"] = "hang"
            except BaseException as e:  # noqa
                out["outcome"] = "raised"
                out["exc"] = e
            if self.settle_main:
                self.settle_main = False
                self.log("main_settled", outside_get=self._workers_outside_get())
            out["seq_at_return"] = self.seq
            # (a thread whose start() was interrupted cannot be joined by anyone: it only has to exit eventually)
            out["alive_at_return"] = [t.id for t in self.threads if not t.is_main and t.started and not t.done and not t.start_interrupted]
            if not self.dead:
                try:
                    self.block_until(
                        lambda: all(t.done or not t.started for t in self.threads if not t.is_main),
                        inject=False,
                    )
                except DeadlockError:
                    pass
            out["events_after_return"] = self.seq - out["seq_at_return"]
        finally:
            _Monitor.deactivate(self)
            _uninstall(patches)
        mine = {t.obj for t in self.threads}
        rogue = [t.name for t in _rt.enumerate() if t not in before and t not in mine]
        if rogue:
            raise HarnessDrift(f"threads were created outside the scheduler's control: {rogue[:5]}")
        out["dead"] = self.dead
        out["steps"] = self.steps
        out["switches"] = self.switches
        out["max_runnable"] = self.max_runnable
        out["threads"] = len(self.threads)
        out["leaked"] = [t.id for t in self.threads if not t.is_main and t.started and not t.done]
        return out


# --------------------------------------------------------------------------------------
# preemption points via sys.monitoring (PEP 669)


class _Monitor:
    """LINE (and, for selected code objects, INSTRUCTION) events of the code objects of the files in
    the preemption set call `point()` of the active scheduler. Events are installed once per process
    and never changed afterwards: re-instrumenting code that parked threads are executing (and
    the legacy `f_trace_opcodes` path) crashed CPython 3.12.1 in this harness."""

    TOOL = 3
    files = None
    opcode = None
    active = None
    n_codes = 0

    @classmethod
    def _codes_of(cls, obj, seen, out):
        co = getattr(obj, "__code__", None)
        if co is None and isinstance(obj, types.CodeType):
            co = obj
        if co is not None:
            if id(co) in seen:
                return
            seen.add(id(co))
            out.append(co)
            for c in co.co_consts:
                if isinstance(c, types.CodeType):
                    cls._codes_of(c, seen, out)
            return
        if isinstance(obj, type):
            for v in list(vars(obj).values()):
                if isinstance(v, (staticmethod, classmethod)):
                    v = v.__func__
                if isinstance(v, property):
                    for f in (v.fget, v.fset, v.fdel):
                        if f is not None:
                            cls._codes_of(f, seen, out)
                elif isinstance(v, (types.FunctionType, type)):
                    if getattr(v, "__module__", None) == obj.__module__:
                        cls._codes_of(v, seen, out)

    @classmethod
    def setup(cls, files, opcode):
        files = tuple(files)
        if cls.files is not None:
            if cls.files != files or cls.opcode != opcode:
                raise RuntimeError(
                    f"preemption set is fixed per process: have {cls.files}/{cls.opcode}, asked {files}/{opcode}"
                )
            return
        mon = sys.monitoring
        mon.use_tool_id(cls.TOOL, "vf-detsched")
        E = mon.events
        out, seen = [], set()
        for name, mod in list(sys.modules.items()):
            f = getattr(mod, "__file__", None)
            if not f or not any((sfx in f) if sfx.endswith("/") else f.endswith(sfx) for sfx in files):
                continue
            for v in list(vars(mod).values()):
                if isinstance(v, (types.FunctionType, type)) and getattr(v, "__module__", None) == mod.__name__:
                    cls._codes_of(v, seen, out)
        mon.register_callback(cls.TOOL, E.LINE, cls._line)
        if opcode:
            mon.register_callback(cls.TOOL, E.INSTRUCTION, cls._line)
        for co in out:
            ev = E.LINE
            if opcode and not (co.co_flags & 0x20):  # not for generator code (worker_pool)
                ev = E.INSTRUCTION
            mon.set_local_events(cls.TOOL, co, ev)
        cls.files, cls.opcode, cls.n_codes = files, opcode, len(out)

    @classmethod
    def _line(cls, code, where):
        s = cls.active
        if s is not None:
            cur = s.current
            if cur is not None and cur.obj is not None and cur.obj._ident == _thread.get_ident():
                s.point("line", None)

    @classmethod
    def activate(cls, s):
        cls.setup(s.preempt_files, s.opcode)
        cls.active = s

    @classmethod
    def deactivate(cls, s):
        if cls.active is s:
            cls.active = None


# --------------------------------------------------------------------------------------
# cooperative primitives


_COOP_CODE = None


def _coop_code():
    global _COOP_CODE
    if _COOP_CODE is None:
        src = "\n\n".join(
            inspect.getsource(getattr(_rt, n))
            for n in ("Condition", "Semaphore", "BoundedSemaphore", "Event")
        )
        _COOP_CODE = compile(src, "<vf_coop_threading>", "exec")
    return _COOP_CODE


def _make_namespace(s: Scheduler):
    class Lock:
        __slots__ = ("held", "origin")

        def __init__(self):
            self.held = False
            self.origin = sys._getframe(1).f_code.co_filename  # which module created this lock

        def acquire(self, blocking=True, timeout=-1):
            # No interrupt injection into Condition's internal re-acquire of its lock at the end
            # of wait(): CPython's Condition.wait leaves the `with` block without holding the
            # lock if a signal lands exactly there (stdlib fragility, not uberjob's behaviour).
            inj = sys._getframe(1).f_code.co_name != "_acquire_restore"
            s.point("acquire", self.origin, inject=inj)
            if not self.held:
                self.held = True
                if _DEBUG:
                    _HIST.setdefault(id(self), []).append(("ACQ-fast", s.current.id, _thread.get_ident() == s.current.obj._ident, s.steps))
                return True
            if not blocking:
                return False
            me = s.current
            f = sys._getframe(1)  # this thread's own frames: blocked inside queue.Queue.get?
            for _ in range(3):
                if f is None:
                    break
                if f.f_code.co_name == "get" and f.f_code.co_filename.endswith("queue.py"):
                    me.in_get = True
                    break
                f = f.f_back
            try:
                ok = s.block_until(lambda: not self.held, None if timeout is None or timeout < 0 else timeout, what=self, inject=inj)
            finally:
                me.in_get = False
            if ok:
                self.held = True
                if _DEBUG:
                    _HIST.setdefault(id(self), []).append(("ACQ-slow", s.current.id, _thread.get_ident() == s.current.obj._ident, s.steps))
                return True
            return False

        def release(self):
            if not self.held:
                if _DEBUG:
                    sys.stderr.write("LOCKHIST %r\n" % (_HIST.get(id(self)),))
                raise RuntimeError("release unlocked lock")
            if _DEBUG:
                _HIST.setdefault(id(self), []).append(("rel", s.current.id, s.steps, [f"{f.filename.rsplit('/',1)[-1]}:{f.lineno}" for f in traceback.extract_stack(limit=5)[:-1]]))
            self.held = False
            s.point("release", self.origin)

        def locked(self):
            return self.held

        def __enter__(self):
            self.acquire()
            if _DEBUG:
                _HIST.setdefault(id(self), []).append(("acq", s.current.id, s.steps, [f"{f.filename.rsplit('/',1)[-1]}:{f.lineno}" for f in traceback.extract_stack(limit=5)[:-1]]))
            return True

        def __exit__(self, *a):
            self.release()

        def _at_fork_reinit(self):
            self.held = False

    class RLock:
        __slots__ = ("owner", "count")

        def __init__(self):
            self.owner = None
            self.count = 0

        def acquire(self, blocking=True, timeout=-1):
            me = s.current
            if self.owner is me:
                self.count += 1
                return True
            s.point("acquire", None, inject=True)
            if self.owner is None:
                self.owner, self.count = me, 1
                return True
            if not blocking:
                return False
            ok = s.block_until(lambda: self.owner is None, None if timeout is None or timeout < 0 else timeout, what=self)
            if ok:
                self.owner, self.count = me, 1
                return True
            return False

        def release(self):
            if self.owner is not s.current:
                raise RuntimeError("cannot release un-acquired lock")
            self.count -= 1
            if self.count == 0:
                self.owner = None
                s.point("release", None)

        def __enter__(self):
            self.acquire()
            return True

        def __exit__(self, *a):
            self.release()

        def _release_save(self):
            st = (self.count, self.owner)
            self.count, self.owner = 0, None
            return st

        def _acquire_restore(self, st):
            s.block_until(lambda: self.owner is None, what=self, inject=False)
            self.count, self.owner = st

        def _is_owned(self):
            return self.owner is s.current

    def vtime():
        return s.now

    class Thread(_rt.Thread):
        def __init__(self, group=None, target=None, name=None, args=(), kwargs=None, *, daemon=None):
            super().__init__(group=group, target=target, name=name, args=args, kwargs=kwargs, daemon=True)
            self._vf_ts = None

        def start(self):
            idx = s.spawn_index
            s.spawn_index += 1
            s.point("thread_start", None, inject=True)
            if s.strategy.spawn_fails(s, idx):
                s.log("spawn_fail", index=idx)
                raise RuntimeError("can't start new thread")
            ts = s._register(self.name, obj=self)
            self._vf_ts = ts
            ts.started = True
            ts.ident_published = False
            _rt.Thread.start(self)
            # the OS thread exists now, but start() has not returned to the caller yet: CPython's
            # Thread.start waits (interruptibly) for the new thread to announce itself, and
            # `ident` stays None until the new thread has run its first instructions
            try:
                s.point("thread_started", None, inject=True)
            except BaseException:
                ts.start_interrupted = True
                raise
            ts.ident_published = True

        @property
        def ident(self):
            ts = self._vf_ts
            if ts is not None and not ts.ident_published:
                return None
            return self._ident

        def run(self):
            ts = self._vf_ts
            ts.baton.acquire()
            ts.ident_published = True
            try:
                if not s.dead:
                    _rt.Thread.run(self)
            except DeadlockError:
                return
            finally:
                if not s.dead:
                    s._thread_finished(ts)

        def join(self, timeout=None):
            ts = self._vf_ts
            if ts is None or not ts.ident_published:
                raise RuntimeError("cannot join thread before it is started")
            s.point("join", None, inject=True)
            s.block_until(lambda: ts.done, timeout, what=self)

        def is_alive(self):
            ts = self._vf_ts
            return ts is not None and ts.started and not ts.done

    ns = types.SimpleNamespace()
    g = {
        "_allocate_lock": Lock,
        "Lock": Lock,
        "RLock": RLock,
        "_time": vtime,
        "_deque": collections.deque,
        "_islice": itertools.islice,
        "get_ident": _thread.get_ident,
        "__name__": "vf_coop_threading",
    }
    exec(_coop_code(), g)
    ns.Lock = Lock
    ns._allocate_lock = Lock
    ns.RLock = RLock
    ns.Condition = g["Condition"]
    ns.Event = g["Event"]
    ns.Semaphore = g["Semaphore"]
    ns.BoundedSemaphore = g["BoundedSemaphore"]
    ns.Thread = Thread
    ns.current_thread = _rt.current_thread
    ns.main_thread = _rt.main_thread
    ns.get_ident = _thread.get_ident
    ns.enumerate = _rt.enumerate
    ns.active_count = _rt.active_count
    ns.local = _rt.local
    ns.vtime = vtime

    class _VTime(types.SimpleNamespace):
        pass

    import time as _realtime

    vt = _VTime()
    for k in dir(_realtime):
        if not k.startswith("__"):
            setattr(vt, k, getattr(_realtime, k))
    vt.time = vtime
    vt.monotonic = vtime
    vt.perf_counter = vtime

    def vsleep(d):
        s.block_until(lambda: False, d, inject=True)

    vt.sleep = vsleep
    ns.time_module = vt
    return ns


# While a scheduler is active, every module of the library (and the standard `queue` module) sees the
# cooperative primitives and the virtual clock, however it names them (`import threading` or
# `from threading import Lock, Thread`; `import time` or `from time import time`): see vf/interpose.py.
def _install(s: Scheduler):
    import time as _realtime

    from . import interpose

    ns = s.ns
    pairs = [
        (_rt, ns), (_realtime, ns.time_module),
        (_rt.Lock, ns.Lock), (_thread.allocate_lock, ns.Lock), (_rt.RLock, ns.RLock), (_rt.Condition, ns.Condition),
        (_rt.Event, ns.Event), (_rt.Semaphore, ns.Semaphore), (_rt.BoundedSemaphore, ns.BoundedSemaphore), (_rt.Thread, ns.Thread),
        (_realtime.time, ns.vtime), (_realtime.monotonic, ns.vtime), (_realtime.perf_counter, ns.vtime),
        (_realtime.sleep, ns.time_module.sleep),
    ]
    import queue as _q

    try:
        import uberjob  # noqa: F401 (its modules must be loaded before their globals are scanned)
    except ImportError:
        pass
    saved = interpose.swap_globals(pairs, prefixes=("uberjob",), extra=("queue",))

    if getattr(_q, "threading", None) is not ns:
        interpose.restore(saved)
        raise HarnessDrift("cannot interpose the threading primitives in the standard queue module")
    return saved


def _uninstall(saved):
    from . import interpose

    interpose.restore(saved)


# (an entry ending in "/" stands for every module in that directory: code may move between the modules of a package)
ENGINE_FILES = (
    "uberjob/_execution/",
    "/queue.py",
)
CACHING_FILES = ENGINE_FILES + (
    "uberjob/_transformations/caching.py",
    "uberjob/_util/retry.py",
)
