"""File-store executions with every file operation interposed: operation traces for
FileStoreTrace.tla, fault injection at the k-th operation (exception kinds) and process death
(the on-disk state before each operation is what a kill at that point leaves)."""
import builtins
import io
import os
import pathlib
import shutil

COUNTED = ("open", "write", "close", "replace", "remove")
_REAL_OPEN = builtins.open


def disk_state(target):
    """What is on disk right now: bytes of the target and of its staging file, the target's mtime."""
    target = os.path.realpath(os.fspath(target))

    def rd(p):
        try:
            with _REAL_OPEN(p, "rb") as f:
                return f.read()
        except OSError:
            return None

    try:
        mt = os.stat(target).st_mtime_ns
    except OSError:
        mt = None
    # the staging file: whatever other regular file sits next to the target (the store's scratch directory holds
    # nothing else), under whatever name the implementation gives it
    staging, staging_name = None, None
    d = os.path.dirname(target)
    try:
        names = sorted(os.listdir(d))
    except OSError:
        names = []
    for n in names:
        q = os.path.join(d, n)
        if q != target and os.path.isfile(q):
            staging, staging_name = rd(q), n
            break
    return {"target": rd(target), "staging": staging, "staging_name": staging_name, "mtime": mt}


class Injected(OSError):
    pass


class Tracer:
    """Interposes builtins.open / os.replace / os.rename / os.remove / os.unlink for paths inside
    `root`. Every operation on the store's target or staging path is logged as an event; the k-th
    counted operation can be made to raise; before every counted operation the on-disk state is
    snapshotted."""

    def __init__(self, root, target, fault=None, snap=True, snap_at=None):
        self.root = os.path.realpath(root)
        self.target = os.path.realpath(str(target))
        self.staging = self.target + ".STAGING"
        self.fault = fault  # {"at": k, "kind": "oserror"|"kbint"}
        self.snap_enabled = snap
        self.snap_at = snap_at  # None: before every counted operation; else only before these indices
        self.events = []
        self.k = 0
        self.snaps = []  # (k, {"target": bytes|None, "staging": bytes|None, "mtime": ns|None})
        self.active = False
        self._orig = {}
        self.fault_hit = False

    # -- classification -----------------------------------------------------------------
    def role(self, p):
        try:
            rp = os.path.realpath(os.fspath(p))
        except TypeError:
            return None
        if rp == self.target:
            return "target"
        if os.path.dirname(rp) == os.path.dirname(self.target):
            return "staging"  # any other file next to the target
        if rp.startswith(self.root + os.sep):
            return "other"
        return None

    def disk(self):
        return disk_state(self.target)

    def _count(self, name, role):
        """Called before a counted operation takes effect. Returns True if it must fail."""
        self.k += 1
        if self.snap_enabled and (self.snap_at is None or self.k in self.snap_at):
            self.snaps.append((self.k, self.disk()))
        f = self.fault
        if f and not self.fault_hit and f["at"] == self.k:
            self.fault_hit = True
            return True
        return False

    def _raise(self):
        if self.fault["kind"] == "kbint":
            raise KeyboardInterrupt("injected")
        raise Injected(5, "injected I/O error")

    def log(self, e, **kw):
        kw["e"] = e
        self.events.append(kw)

    # -- interposition ------------------------------------------------------------------
    def __enter__(self):
        T = self
        self._orig = {"open": builtins.open, "replace": os.replace, "rename": os.rename, "remove": os.remove,
                      "unlink": os.unlink, "io_open": io.open}

        def my_open(file, mode="r", *a, **kw):
            role = T.role(file) if T.active and isinstance(file, (str, bytes, os.PathLike)) else None
            if role is None or role == "other":
                return T._orig["open"](file, mode, *a, **kw)
            writing = any(c in mode for c in "wax+")
            if not writing:
                T.log("open", role=role, mode="r", fail=False)
                return T._orig["open"](file, mode, *a, **kw)
            fail = T._count("open", role)
            T.log("open", role=role, mode="w", fail=fail)
            if fail:
                T._raise()
            f = T._orig["open"](file, mode, *a, **kw)
            return FileProxy(T, f, role)

        def my_replace(src, dst, *a, **kw):
            rs, rd = (T.role(src), T.role(dst)) if T.active else (None, None)
            if rs in (None, "other") and rd in (None, "other"):
                return T._orig["replace"](src, dst, *a, **kw)
            fail = T._count("replace", rd)
            T.log("replace", src=rs or "none", dst=rd or "none", fail=fail)
            if fail:
                T._raise()
            return T._orig["replace"](src, dst, *a, **kw)

        def my_remove(p, *a, **kw):
            role = T.role(p) if T.active else None
            if role in (None, "other"):
                return T._orig["remove"](p, *a, **kw)
            exists = os.path.lexists(p)
            T.k += 1  # counted for snapshots only: the property does not ask for failing removes
            if T.snap_enabled and (T.snap_at is None or T.k in T.snap_at):
                T.snaps.append((T.k, T.disk()))
            T.log("remove", role=role, fail=not exists)
            return T._orig["remove"](p, *a, **kw)

        builtins.open = my_open
        io.open = my_open
        os.replace = my_replace
        os.rename = my_replace
        os.remove = my_remove
        os.unlink = my_remove
        # modules of the library that bound the functions by name (`from os import replace, remove`)
        from . import interpose

        o = self._orig
        self._swapped = interpose.swap_globals(
            [(o["open"], my_open), (o["io_open"], my_open), (o["replace"], my_replace), (o["rename"], my_replace),
             (o["remove"], my_remove), (o["unlink"], my_remove)])
        self.active = True
        return self

    def __exit__(self, *exc):
        self.active = False
        from . import interpose

        interpose.restore(getattr(self, "_swapped", []))
        self._swapped = []
        builtins.open = self._orig["open"]
        io.open = self._orig["io_open"]
        os.replace = self._orig["replace"]
        os.rename = self._orig["rename"]
        os.remove = self._orig["remove"]
        os.unlink = self._orig["unlink"]
        return False


class FileProxy:
    """Wraps a file object opened for writing on the target or staging path."""

    def __init__(self, tracer, f, role):
        self._t = tracer
        self._f = f
        self._role = role
        self._closed = False

    def write(self, data):
        fail = self._t._count("write", self._role)
        self._t.log("write", role=self._role, fail=fail)
        if fail:
            self._t._raise()
        return self._f.write(data)

    def writelines(self, lines):
        for x in lines:
            self.write(x)

    def close(self):
        if self._closed:
            return self._f.close()
        self._closed = True
        fail = self._t._count("close", self._role)
        self._t.log("close", role=self._role, fail=fail)
        self._f.close()
        if fail:
            self._t._raise()

    def __enter__(self):
        return self

    def __exit__(self, et, ev, tb):
        if et is not None and not self._t.events[-1].get("fail"):
            # an exception raised by the code using the file (serialisation error, ...) is unwinding
            self._t.log("raise")
        self.close()
        return False

    def __getattr__(self, name):
        return getattr(self._f, name)

    def __iter__(self):
        return iter(self._f)

    def __del__(self):
        try:
            if not self._closed:
                self._f.close()
        except Exception:
            pass


# --------------------------------------------------------------------------------------
# writers: the five stores and the two helpers, over str and pathlib paths


def writers():
    from uberjob import stores as S

    def via_store(cls, **kw):
        def mk(path):
            st = cls(path, **kw)
            return st.write, st.read, st.get_modified_time
        return mk

    def via_staged_write(binary):
        def mk(path):
            def write(v):
                with S.staged_write(path, "wb" if binary else "w") as f:
                    for chunk in v:
                        f.write(chunk)

            def read():
                with open(path, "rb" if binary else "r", **({} if binary else {"newline": ""})) as f:
                    return f.read()
            return write, read, lambda: S.get_modified_time(path)
        return mk

    def via_staged_write_path():
        def mk(path):
            def write(v):
                with S.staged_write_path(path) as sp:
                    with open(sp, "wb") as f:
                        for chunk in v:
                            f.write(chunk)

            def read():
                with open(path, "rb") as f:
                    return f.read()
            return write, read, lambda: S.get_modified_time(path)
        return mk

    return {
        "JsonFileStore": via_store(S.JsonFileStore),
        "PickleFileStore": via_store(S.PickleFileStore),
        "TextFileStore": via_store(S.TextFileStore),
        "BinaryFileStore": via_store(S.BinaryFileStore),
        "TouchFileStore": via_store(S.TouchFileStore),
        "staged_write_text": via_staged_write(False),
        "staged_write_binary": via_staged_write(True),
        "staged_write_path": via_staged_write_path(),
    }


class Unserialisable:
    def __reduce__(self):
        raise TypeError("cannot pickle this on purpose")


def sample_values(kind, big=False):
    """(old value, new value, value whose serialisation fails part-way or None) per writer kind."""
    n = 400 if big else 3
    if kind == "JsonFileStore":
        return {"k": list(range(n)), "s": "old"}, {"k": list(range(n)), "s": "new", "t": [1.5, None, True]}, {"a": list(range(n)), "b": object()}
    if kind == "PickleFileStore":
        return ("old", list(range(n))), ("new", {"x": list(range(n))}), ["x" * n, Unserialisable()]
    if kind == "TextFileStore":
        return "old text\n" * n, "new text line\nsecond\n" * n, 12345
    if kind == "BinaryFileStore":
        return b"old\x00bytes" * n, b"new\xffbytes" * n, "not bytes"
    if kind == "TouchFileStore":
        return None, None, "not none"
    if kind == "staged_write_text":
        return ["old ", "text"] * n, ["new ", "text", "!"] * n, ["a", b"bytes in text mode"]
    return [b"old ", b"bytes"] * n, [b"new ", b"bytes", b"!"] * n, [b"a", "str in binary mode"]


def reference_bytes(kind, value, scratch):
    """Serialisation of `value` by an untraced writer of the same kind."""
    p = os.path.join(scratch, "ref")
    w, _r, _m = writers()[kind](p)
    w(value)
    with open(p, "rb") as f:
        b = f.read()
    os.remove(p)
    return b


def classify(b, old_b, new_b):
    if b is None:
        return "absent"
    if b == new_b:
        return "new"
    if b == old_b:
        return "old"
    return "other"
