"""C10 extras that RunAbs traces do not carry: 'whenever at least max_workers independent calls
are ready that many do run in parallel' (rendezvous plans: a deadlock reported by the scheduler
means the engine serialises)."""
import random

from .. import common, detsched


def _rendezvous(task):
    import uberjob

    W, width, chain = task["W"], task["width"], task["chain"]
    parties = min(W, width)
    rng = random.Random(task["seed"])
    random.seed(task["seed"])
    strat = detsched.RandomStrategy(rng, task.get("p", 0.1)) if task.get("p") else detsched.Strategy()
    sched = detsched.Scheduler(strat, preempt_files=detsched.ENGINE_FILES, opcode=False, step_budget=200000)
    state = {"in": 0, "max": 0, "released": False}

    def mk(i):
        def f(*a):
            sched.log("start", n=i, a=1)
            state["in"] += 1
            state["max"] = max(state["max"], state["in"])
            if state["in"] >= parties:
                state["released"] = True
            # nobody finishes until `parties` calls are executing at the same time
            sched.block_until(lambda: state["released"], what="rendezvous", inject=False)
            state["in"] -= 1
            sched.log("end", n=i, a=1, ok=True)
            return i

        f.__qualname__ = f.__name__ = f"r{i}"
        return f

    plan = uberjob.Plan()
    prev = None
    for c in range(chain):
        prev = plan.call(mk(-(c + 1)), *([prev] if prev is not None else []))
        state_chain = True
    # the chain calls must not take part in the rendezvous
    calls = []
    for i in range(width):
        calls.append(plan.call(mk(i + 1), *([prev] if prev is not None else [])))

    # chain functions: plain
    def body():
        return uberjob.run(plan, output=calls, max_workers=W, progress=None, scheduler=task["sched"])

    # replace chain fns by non-blocking ones
    for node in list(plan.graph.nodes()):
        if hasattr(node, "fn") and node.fn.__name__.startswith("r-"):
            i = int(node.fn.__name__[1:])

            def g(*a, _i=i):
                sched.log("start", n=_i, a=1)
                sched.point("call")
                sched.log("end", n=_i, a=1, ok=True)
                return _i

            g.__qualname__ = g.__name__ = f"c{-i}"
            node.fn = g
    out = sched.run(body)
    r = {"outcome": out["outcome"], "dead": out["dead"], "max_in_flight": state["max"], "parties": parties}
    if out["dead"]:
        r["_poisoned"] = True
    if out["outcome"] == "raised":
        r["exc"] = repr(out["exc"])[:200]
    return r


def run(res, tier, seed):
    rng = random.Random(f"rdv-{seed}")
    tasks = []
    for i in range(150 if tier == "quick" else 4000):
        W = rng.randint(1, 5)
        tasks.append({"W": W, "width": rng.randint(1, 6), "chain": rng.choice([0, 0, 1, 2]), "sched": rng.choice(["default", "random", None]),
                      "seed": seed * 1000 + i, "p": rng.choice([0, 0.1, 0.3])})
    # boundary: worker counts beyond the default cap of the thread pool (32) must be honoured when given explicitly
    for i, W in enumerate((33, 40) if tier == "quick" else (33, 34, 40, 48, 64)):
        tasks.append({"W": W, "width": W + (i % 2), "chain": 0, "sched": ["default", "random"][i % 2], "seed": seed * 1000 + 900 + i, "p": 0})
    outs = common.pmap(_rendezvous, tasks)
    for t, o in zip(tasks, outs):
        if o["outcome"] == "hang" or o["dead"]:
            res.add_violation("C10:parallelism:serialised", f"{o['parties']} independent ready calls never ran in parallel with max_workers={t['W']} (rendezvous deadlock)",
                              {"kind": "rendezvous", "task": t, "out": o})
        elif o["outcome"] != "returned":
            res.add_violation("C10:parallelism:error", f"rendezvous plan failed: {o.get('exc')}", {"kind": "rendezvous", "task": t, "out": o})
        elif o["max_in_flight"] > t["W"]:
            res.add_violation("C10:max_workers:exceeded", f"{o['max_in_flight']} calls in flight with max_workers={t['W']}", {"kind": "rendezvous", "task": t, "out": o})
    res.merge_counts(evaluations=len(tasks))
    res.coverage["rendezvous_plans"] = len(tasks)
    res.add_samples([{"rendezvous_task": tasks[0], "result": outs[0]}], cap=6)


def replay(w):
    o = _rendezvous(w["witness"]["task"])
    print(o)
    bad = o["outcome"] != "returned"
    if bad:
        print("VIOLATION property=C10 replay=(reproduced)")
    return 1 if bad else 0
