"""C19 — a failure is attributed to the user line that created the failing symbolic call.
Attribution.tla is the decision table (capture depth, truncation, inheritance of the creating
operation's stack, rendering order). Each row (operation x failing physical call x stack depth x
failure phase) becomes a generated script run as __main__ in a fresh interpreter, so that the
user's stack at the creating line has exactly the intended depth; on the creating line itself the
script records the interpreter's own frame chain, makes exactly the chosen physical call fail,
and reports which of those frames the CallError's symbolic traceback names. AttributionTrace.tla
validates the reports."""
import json
import os
import subprocess
import sys
import textwrap

from .. import common, tlc

PROP = "C19"

PRELUDE = '''
import json, sys, re
import datetime as dt
import uberjob
try:
    from uberjob._util.traceback import TruncatedStackFrame
except Exception:
    TruncatedStackFrame = object()

def chain_here():
    f = sys._getframe(1)
    out = []
    while f:
        out.append((f.f_code.co_name, f.f_code.co_filename, f.f_lineno))
        f = f.f_back
    return out

class Boom(Exception):
    pass

def boom(*a, **k):
    raise Boom("user call fails")

def ident(*a, **k):
    return a

class S(uberjob.ValueStore):
    def __init__(self, fail=(), present=True):
        self.fail = set(fail); self.present = present; self.v = 0
    def read(self):
        if "read" in self.fail: raise Boom("read fails")
        return self.v
    def write(self, v):
        if "write" in self.fail: raise Boom("write fails")
        self.v = v; self.present = True
    def get_modified_time(self):
        if "mtime" in self.fail: raise Boom("mtime fails")
        return dt.datetime(2020, 1, 1) if self.present else None

R = {}
'''

# each builder creates the plan; the creating line of the call that will fail also records `exp = chain_here()`
BUILDERS = {
    ("call", "user_call"): '''
    plan = uberjob.Plan(); reg = None
    node = plan.call(boom); exp = chain_here()
    R.update(plan=plan, reg=reg, out=node, exp=exp, failing=node)
''',
    ("call", "implicit_gather"): '''
    plan = uberjob.Plan(); reg = None
    x = plan.call(lambda: [])
    node = plan.call(ident, {x}); exp = chain_here()
    R.update(plan=plan, reg=reg, out=node, exp=exp, failing_fn="gather_set")
''',
    ("gather", "gather"): '''
    plan = uberjob.Plan(); reg = None
    x = plan.call(lambda: [])
    node = plan.gather([1, {x}]); exp = chain_here()
    R.update(plan=plan, reg=reg, out=node, exp=exp, failing_fn="gather_set")
''',
    ("unpack", "unpack"): '''
    plan = uberjob.Plan(); reg = None
    x = plan.call(lambda: [1])
    a, b = plan.unpack(x, 2); exp = chain_here()
    R.update(plan=plan, reg=reg, out=a, exp=exp, failing_fn="unpack")
''',
    ("unpack", "implicit_gather"): '''
    plan = uberjob.Plan(); reg = None
    x = plan.call(lambda: [])
    a, b = plan.unpack([{x}, 2], 2); exp = chain_here()
    R.update(plan=plan, reg=reg, out=a, exp=exp, failing_fn="gather_set")
''',
    ("add", "store_write"): '''
    plan = uberjob.Plan(); reg = uberjob.Registry()
    node = plan.call(ident, 1)
    reg.add(node, S(fail=["write"], present=False)); exp = chain_here()
    R.update(plan=plan, reg=reg, out=node, exp=exp, failing_fn="write")
''',
    ("add", "store_read_back"): '''
    plan = uberjob.Plan(); reg = uberjob.Registry()
    node = plan.call(ident, 1)
    reg.add(node, S(fail=["read"], present=False)); exp = chain_here()
    R.update(plan=plan, reg=reg, out=node, exp=exp, failing_fn="read")
''',
    ("source", "source_read"): '''
    plan = uberjob.Plan(); reg = uberjob.Registry()
    src = reg.source(plan, S(fail=["read"])); exp = chain_here()
    node = plan.call(ident, src)
    R.update(plan=plan, reg=reg, out=node, exp=exp, failing_fn="read")
''',
    ("source", "mtime_query"): '''
    plan = uberjob.Plan(); reg = uberjob.Registry()
    src = reg.source(plan, S(fail=["mtime"])); exp = chain_here()
    node = plan.call(ident, src)
    R.update(plan=plan, reg=reg, out=node, exp=exp, failing=src)
''',
    ("call", "mtime_query"): '''
    plan = uberjob.Plan(); reg = uberjob.Registry()
    node = plan.call(ident, 1); exp = chain_here()
    reg.add(node, S(fail=["mtime"]))
    R.update(plan=plan, reg=reg, out=node, exp=exp, failing=node)
''',
    # a plan-building helper reached twice through different caller chains: the second creation fails
    ("call", "user_call", "helper_reused"): '''
    plan = uberjob.Plan(); reg = None
    def helper():
        node = plan.call(boom); R["exp"] = chain_here()
        return node
    def path_a():
        return helper()
    def via():
        return helper()
    def path_b():
        return via()
    first = path_a()
    second = path_b()
    R.update(plan=plan, reg=reg, out=second, failing=second)
''',
    ("add", "store_write", "helper_reused"): '''
    plan = uberjob.Plan(); reg = uberjob.Registry()
    def helper(fail):
        node = plan.call(ident, 1)
        reg.add(node, S(fail=fail, present=False)); R["exp"] = chain_here()
        return node
    def deeper(fail):
        return helper(fail)
    first = helper([])
    second = deeper(["write"])
    R.update(plan=plan, reg=reg, out=[first, second], failing_fn="write")
''',
    # the user's own module happens to be called uberjob-something: its frames are user frames all the same
    ("call", "user_call", "module_named_uberjobs"): '''
    plan = uberjob.Plan(); reg = None
    node = plan.call(boom); exp = chain_here()
    R.update(plan=plan, reg=reg, out=node, exp=exp, failing=node)
''',
    ("source", "source_read", "module_named_uberjobs"): '''
    plan = uberjob.Plan(); reg = uberjob.Registry()
    src = reg.source(plan, S(fail=["read"])); exp = chain_here()
    node = plan.call(ident, src)
    R.update(plan=plan, reg=reg, out=node, exp=exp, failing_fn="read")
''',
    ("run_output", "output_gather"): '''
    plan = uberjob.Plan(); reg = None
    x = plan.call(lambda: [])
    R.update(plan=plan, reg=reg, out={x}, exp=None, failing_fn="gather_set", run_here=True)
''',
}

RUNNER = '''
def do_run():
    kw = dict(output=R["out"], progress=None, max_workers=W)
    if R["reg"] is not None:
        kw["registry"] = R["reg"]
    return uberjob.run(R["plan"], **kw)

def report(err, exp):
    res = {"raised": isinstance(err, uberjob.CallError), "callok": False, "obs": [], "trunc": False, "rendered": [], "rendered_trunc_first": False,
           "n": len(exp), "err": repr(err)[:200]}
    if not res["raised"]:
        return res
    call = err.call
    if "failing" in R:
        res["callok"] = call is R["failing"]
    else:
        res["callok"] = getattr(getattr(call, "fn", None), "__name__", None) == R["failing_fn"]
    sf = getattr(call, "stack_frame", None)
    idx = {fr: i for i, fr in enumerate(exp)}
    while sf is not None:
        if sf is TruncatedStackFrame or not (hasattr(sf, "outer") and hasattr(sf, "path")):
            res["trunc"] = True  # the marker that ends a chain cut at the depth limit
            break
        res["obs"].append(idx.get((sf.name, sf.path, sf.line), -1))
        sf = sf.outer
    # the rendered message: the lines that name a file and a line number, in the order shown; a line saying "truncated"
    first = True
    for ln in str(err).splitlines():
        m = re.match(r'\\s*File "(.*)", line (\\d+)(?:, in (.*))?$', ln)
        if m:
            key = [k for k in idx if k[1] == m.group(1) and k[2] == int(m.group(2)) and (m.group(3) is None or k[0] == m.group(3))]
            res["rendered"].append(idx[key[0]] if key else -1)
            first = False
        elif "truncated" in ln.lower() and ln.strip().startswith("..."):
            res["rendered_trunc_first"] = first
            first = False
    return res
'''


def script(op, failing, depth, W, variant=""):
    """A script whose creating line runs with a Python stack of exactly `depth` frames (plus the
    helper frames of the variant, if any)."""
    body = BUILDERS[(op, failing, variant) if variant else (op, failing)]
    run_here = op == "run_output"
    lines = [PRELUDE, f"W = {W}", RUNNER]
    # the innermost function (or module level for depth 1) builds the plan; for run_output it also runs it there
    inner = textwrap.dedent(body).strip("\n")
    if run_here:
        inner += "\ntry:\n    uberjob.run(R['plan'], output=R['out'], progress=None, max_workers=W); R['exp'] = chain_here(); R['err'] = None\nexcept BaseException as e:\n    R['err'] = e\n"
        # the expected chain must come from the very line of the run call: re-run chain_here on that line is impossible after a raise,
        # so the run line is written as a single expression statement with the chain captured first on the same line
        inner = inner.replace("try:\n    uberjob.run(R['plan'], output=R['out'], progress=None, max_workers=W); R['exp'] = chain_here(); R['err'] = None",
                              "try:\n    R['exp'] = chain_here(); uberjob.run(R['plan'], output=R['out'], progress=None, max_workers=W); R['err'] = None")
    if depth == 1:
        lines.append(inner)
    else:
        lines.append("def level_1():\n" + textwrap.indent(inner, "    "))
        for k in range(2, depth):
            lines.append(f"def level_{k}():\n    level_{k - 1}()")
        lines.append(f"level_{depth - 1}()")
    if not run_here:
        lines.append("try:\n    do_run(); R['err'] = None\nexcept BaseException as e:\n    R['err'] = e")
    lines.append("print('REPORT ' + json.dumps(report(R['err'], R['exp'])))")
    return "\n".join(lines) + "\n"


def run_row(arg):
    op, failing, depth, W, repo_src = arg[:5]
    variant = arg[5] if len(arg) > 5 else ""
    with common.scratch("vf-c19-") as d:
        as_module = variant == "module_named_uberjobs"
        p = os.path.join(d, "uberjobs_case.py" if as_module else f"case_{op}_{failing}_{depth}.py")
        with open(p, "w") as f:
            f.write(script(op, failing, depth, W, variant))
        env = dict(os.environ)
        env["PYTHONPATH"] = repo_src + (os.pathsep + d if as_module else "")
        env["PYTHONDONTWRITEBYTECODE"] = "1"
        cmd = [sys.executable, "-B", "-c", "import uberjobs_case"] if as_module else [sys.executable, "-B", p]
        pr = subprocess.run(cmd, capture_output=True, text=True, env=env, timeout=120, cwd=d)
    rep = None
    for line in pr.stdout.splitlines():
        if line.startswith("REPORT "):
            rep = json.loads(line[7:])
    if rep is None:
        raise common.MachineryError(f"generated script for {op}/{failing}/depth {depth} produced no report:\n{pr.stdout[-800:]}\n{pr.stderr[-1500:]}")
    rep.update({"op": op, "failing": failing, "depth": depth, "W": W, "variant": variant})
    return rep


def run(tier, seed):
    res = common.Result(PROP, tier, seed, "model_checking")
    res.assumptions = [
        "each generated script runs as __main__ in a fresh interpreter, so the user's stack at the creating line has exactly the intended depth",
        "the expected frame chain is read from the interpreter (sys._getframe) on the creating line itself",
        "MAX_TRACEBACK_DEPTH is 3 (Attribution.tla's Limit); a change of the limit shows up as truncation clauses failing",
    ]
    r = tlc.run_tlc("Attribution", "MC_Attribution.cfg", timeout=300, workers=4)
    res.merge_counts(states=r.distinct, transitions=r.states)
    res.coverage.setdefault("tlc_runs", []).append({"module": "Attribution", "distinct_states": r.distinct, "ok": r.ok, "violated": r.violated})
    if not r.ok:
        raise common.MachineryError(f"TLC did not verify Attribution.tla: {r.violated}\n{r.out[-1500:]}")
    depths = [1, 2, 3, 4, 5, 6] if tier == "quick" else [1, 2, 3, 4, 5, 6, 7, 8]
    Ws = [1] if tier == "quick" else [1, 3]
    rows = [(k[0], k[1], d, W, common.REPO_SRC, k[2] if len(k) > 2 else "") for k in BUILDERS for d in depths for W in Ws]
    reps = common.pmap(run_row, rows)
    # does the message still look like what this module's parser reads (File "...", line N[, in name])? If no row
    # yields a single recognised line, the wording has changed and the order of the rendered frames is not judged
    fmt_ok = any(rp["rendered"] for rp in reps)
    res.coverage["rendered_message_parser_valid"] = fmt_ok
    events = []
    for rp in reps:
        events.append({"op": rp["op"], "failing": rp["failing"], "n": rp["n"], "raised": rp["raised"], "callok": rp["callok"], "obs": rp["obs"],
                       "trunc": rp["trunc"], "rendered": rp["rendered"], "rendered_trunc_first": rp["rendered_trunc_first"], "rcheck": fmt_ok})
    _acc, rej, rt = tlc.validate_traces("AttributionTrace", "AttributionTrace.cfg", [{"events": events}])
    res.merge_counts(states=rt.distinct, transitions=rt.distinct, traces_validated_against_impl=len(events), evaluations=len(events),
                     distinct_nontrivial=len({(e["op"], e["failing"], e["n"]) for e in events}))
    res.coverage["rows"] = len(rows)
    res.coverage["exhaustive"] = True
    res.coverage["depth_mismatch"] = sum(1 for rp in reps if rp["n"] != rp["depth"] and not rp["variant"])
    res.coverage["rule"] = ("the complete table: creating operation x failing physical call (user call, implicit gather of plan.call / plan.unpack arguments, explicit gather, "
                            "unpack, store write, store read-back, source read, modified-time query of a source and of a stored call, gather of run(output=...)) x stack depth "
                            "1..6 (quick) / 1..8 x worker counts; each row a generated script in a fresh interpreter; every row is a distinct case")
    for _tid, clauses in rej.items():
        for l, c in clauses:
            rp = reps[l - 1]
            res.add_violation(f"C19:{c}:{rp['op']}:{rp['failing']}" + (":" + rp["variant"] if rp["variant"] else ""),
                              f"{rp['op']}/{rp['failing']}{'/' + rp['variant'] if rp['variant'] else ''} at stack depth {rp['depth']}: {c} (frames named: {rp['obs']}, truncated {rp['trunc']}, rendered {rp['rendered']}, error {rp['err']})",
                              {"row": {k: rp[k] for k in ("op", "failing", "depth", "W", "variant")}, "report": rp})
    res.add_samples([{k: reps[i][k] for k in ("op", "failing", "depth", "obs", "trunc", "rendered")} for i in (0, len(reps) // 2)])
    return res


def replay(w):
    row = w["witness"]["row"]
    rp = run_row((row["op"], row["failing"], row["depth"], row["W"], common.REPO_SRC, row.get("variant", "")))
    e = {"op": rp["op"], "failing": rp["failing"], "n": rp["n"], "raised": rp["raised"], "callok": rp["callok"], "obs": rp["obs"],
         "trunc": rp["trunc"], "rendered": rp["rendered"], "rendered_trunc_first": rp["rendered_trunc_first"], "rcheck": bool(rp["rendered"])}
    _acc, rej, _ = tlc.validate_traces("AttributionTrace", "AttributionTrace.cfg", [{"events": [e]}])
    print(rp, rej)
    if rej:
        print(f"VIOLATION property={PROP} replay=(reproduced)")
        return 1
    print("not reproduced")
    return 0
