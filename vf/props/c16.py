"""C16 — intermediate results are released as soon as their last consumer has finished.
Physical.tla states which results uberjob may still reach (slots referenced by the BoundCalls of
unfinished consumers, or the output); PhysicalTrace.tla checks, on fault-free executions of the
real engine under the deterministic scheduler, that the results found alive (weak references,
after a garbage collection) at every call boundary and at every 'completed' notification are
among those."""
import os
import random

from .. import common, engine_campaign as EC, scen as S, tlc

PROP = "C16"


def run_mc(res):
    r = tlc.run_tlc("MC_Physical", "MC_Physical.cfg", timeout=900)
    res.merge_counts(states=r.distinct, transitions=r.states)
    res.coverage.setdefault("tlc_runs", []).append({"module": "MC_Physical", "distinct_states": r.distinct, "states_generated": r.states,
                                                   "ok": r.ok, "violated": r.violated, "wall_s": round(r.wall, 1)})
    if not r.ok:
        raise common.MachineryError(f"TLC did not verify Physical.tla: {r.violated}\n{r.trace[:3000] or r.out[-2000:]}")


def trace_of(task, rec):
    scn = task["scn"]
    needed = set(S.needed_calls(scn))
    maxid = max(S.node_ids(scn))
    cons = {c: set() for c in range(1, maxid + 1)}
    for s_, d, k in scn["edges"]:
        if k in ("pos", "kw") and d in needed and s_ in needed:
            cons[s_].add(d)
    outs = [n for n in S.output_nodes(scn.get("output")) if n in needed]
    ev = []
    for e in rec["events"]:
        k = e["ev"]
        if k == "start":
            ev.append({"e": "start", "n": e["n"], "t": e["th"], "ids": [], "settle": True})
        elif k == "end":
            ev.append({"e": "end", "n": e["n"], "t": e["th"], "ids": [], "settle": True})
        elif k == "p_completed" and e.get("sec") == "run":
            ev.append({"e": "completed", "n": 0, "t": e["th"], "ids": [], "settle": True})
        elif k == "alive":
            ev.append({"e": "alive", "n": e["n"], "t": e["th"], "ids": list(e["ids"]), "settle": True})
    ev.append({"e": "returned", "n": 0, "t": 0, "ids": [], "settle": True})
    keep = []
    if rec["outcome"] == "raised":
        ec = rec.get("err_call", -1)
        keep = sorted(s_ for s_, d, k in scn["edges"] if d == ec and k in ("pos", "kw") and s_ in needed)
    return {"calls": sorted(needed), "cons": [sorted(cons[c]) for c in range(1, maxid + 1)], "outs": outs, "keep": keep, "events": ev}


def _validate_batch(arg):
    _i, batch = arg
    _acc, rej, r = tlc.validate_traces("PhysicalTrace", "PhysicalTrace.cfg", batch, timeout=1500)
    return {str(k): v for k, v in rej.items()}, (r.distinct if r else 0)


def gen_tasks(n, seed, nmax):
    rng = random.Random(f"c16-{seed}")
    tasks = EC.gen_tasks("plain", n, seed + 16, opcode_frac=0.0, nmax=nmax)
    # runs that go on after failures (error budget): a failed consumer has finished too; only the failure that run
    # reports may keep its arguments (through the traceback of the reported exception)
    ftasks = EC.gen_tasks("fail", n // 3, seed + 17, opcode_frac=0.0, nmax=nmax)
    for t in ftasks:
        t["opts"]["maxerr"] = rng.choice([1, 2, None, None])
    tasks += ftasks
    # several producer -> failing consumer pairs followed by further calls on few workers: after the second failure the
    # worker moves on, so the second pair's result has to be gone while the run is still going
    for i in range(max(4, n // 40)):
        k, m = rng.randint(2, 3), rng.randint(2, 4)
        nodes, edges, fails = [], [], {}
        for j in range(k):
            p_, c_ = 2 * j + 1, 2 * j + 2
            nodes += [{"id": p_, "kind": "call"}, {"id": c_, "kind": "call"}]
            edges.append([p_, c_, rng.choice(["pos", "kw"])])
            fails[str(c_)] = {"n": 1, "exc": rng.choice(["ValueError", "KeyError", "Exception"])}
        tail = list(range(2 * k + 1, 2 * k + m + 1))
        nodes += [{"id": t_, "kind": "call"} for t_ in tail]
        for a, b in zip(tail, tail[1:]):
            if rng.random() < 0.5:
                edges.append([a, b, "pos"])
        scn = S.norm({"nodes": nodes, "edges": edges, "output": None})
        scn["fails"] = fails
        t = EC._mk(scn, rng, W=rng.choice([1, 1, 2]), sched=rng.choice(["default", "random"]), maxerr=None,
                   strat=rng.choice([{"kind": "nonpreemptive"}, {"kind": "random", "p": 0.1}]), seed=seed * 41 + i)
        tasks.append(t)
    for t in tasks:
        t["track_alive"] = True
        t["observer"] = "rec"
        t["keep_events"] = True
        # every call's result should matter: ask for sinks or a random subset, never nothing
        if t["scn"].get("output") is None:
            t["scn"] = dict(t["scn"])
            t["scn"]["output"] = S.all_sinks_output(t["scn"])
    return tasks


def run(tier, seed):
    res = common.Result(PROP, tier, seed, "model_checking")
    res.assumptions = [
        "fault-free runs, and runs with failing calls that go on under an error budget; the arguments of the one call whose failure run reports may live until run raises "
        "(the reported exception's traceback holds that call's frame); results are fresh weak-referenceable objects that do not reference their inputs",
        "a result counts as released if a weak reference to it is dead after gc.collect(); the harness keeps only ids",
        "a call that has returned is considered finished once the engine reports it completed or its worker thread has started something else",
    ]
    run_mc(res)
    tasks = gen_tasks(1200 if tier == "quick" else 6000, seed, 8 if tier == "quick" else 12)
    ft, fr, _ = EC.run_tasks(tasks)
    traces, keep = [], []
    for t, r in zip(ft, fr):
        if r["outcome"] != "returned" and not (r["outcome"] == "raised" and r.get("exc_type") == "CallError"):
            res.coverage.setdefault("non_returning_executions", 0)
            res.coverage["non_returning_executions"] += 1
            continue
        traces.append(trace_of(t, r))
        keep.append(t)
    per = max(1, min(300, (len(traces) + common.NPROC - 1) // common.NPROC))
    batches = [(i, traces[i: i + per]) for i in range(0, len(traces), per)]
    outs = common.pmap(_validate_batch, batches)
    states, rej = 0, {}
    for (i0, _b), (r, st) in zip(batches, outs):
        states += st
        for k, v in r.items():
            rej[i0 + int(k) - 1] = [tuple(x) for x in v]
    res.merge_counts(states=states, transitions=states, traces_validated_against_impl=len(traces), evaluations=len(traces),
                     distinct_nontrivial=len({common.stable_hash([t["scn"], t["opts"], t["seed"]]) for t, tr in zip(keep, traces)
                                              if any(e["e"] == "alive" and e["ids"] for e in tr["events"])}))
    res.coverage["alive_snapshots"] = sum(1 for tr in traces for e in tr["events"] if e["e"] == "alive")
    res.coverage["traces_accepted"] = len(traces) - len(rej)
    res.coverage["rule"] = ("fault-free executions of uberjob.run on seeded random plans (2-8 nodes quick, -12 thorough), outputs = sinks / subsets / structures, "
                            "W in 1..N+1, both schedulers, random / PCT / release-yield schedules; after gc.collect() the set of live results is logged at every call start, "
                            "call end and 'completed' notification; non-trivial = distinct execution in which some snapshot found a live result")
    for idx, clauses in sorted(rej.items()):
        if any(c == "unknown_event" for _l, c in clauses):
            raise common.MachineryError("PhysicalTrace: unknown event")
        t = keep[idx]
        l0 = clauses[0][0]
        res.add_violation("C16:engine:released_after_last_consumer", "a result was still alive although every call consuming it had finished and it is not part of the output",
                          {"task": t, "clauses": clauses[:6], "event": traces[idx]["events"][l0 - 1], "cons": traces[idx]["cons"], "outs": traces[idx]["outs"]})
    res.add_samples([{"scenario": keep[0]["scn"], "options": keep[0]["opts"], "events": [[e["e"], e["n"], e["t"], e["ids"]] for e in traces[0]["events"]][:40]}] if traces else [])
    return res


def replay(w):
    t = w["witness"]["task"]
    ft, fr, _ = EC.run_tasks([t])
    if fr[0]["outcome"] != "returned" and fr[0].get("exc_type") != "CallError":
        print("execution did not return:", fr[0]["outcome"])
        return 0
    tr = trace_of(ft[0], fr[0])
    _acc, rej, _r = tlc.validate_traces("PhysicalTrace", "PhysicalTrace.cfg", [tr])
    print(rej)
    if rej:
        print(f"VIOLATION property={PROP} replay=(reproduced)")
        return 1
    print("not reproduced")
    return 0
