"""C13 extras: (a) several threads run the same Plan concurrently under the deterministic scheduler
(preemption inside _run.py / _plan.py / pruning / the engine): every run must return the value of
a sequential run and the caller's plan must be unchanged; (b) Plan.copy / Registry.copy independence:
mutating a copy never shows in the original and vice versa."""
import random

from .. import common, cscen as CS, scen as S


def concurrent_runs(arg):
    seed, nthreads, stratspec = arg
    import uberjob

    from .. import detsched, engine_exec as E

    rng = random.Random(seed)
    scn = S.random_scenario(rng, 3, 7)
    if scn.get("output") is None:
        scn["output"] = S.all_sinks_output(scn)
    strat = E.make_strategy(stratspec, rng)
    files = detsched.ENGINE_FILES + ("uberjob/_run.py", "uberjob/_plan.py", "uberjob/_registry.py", "uberjob/_transformations/")
    sched = detsched.Scheduler(strat, preempt_files=files, opcode=False, step_budget=600000)
    ctx = E.Ctx(sched)
    b = S.build(scn, ctx)
    expected = S.expected_value(scn)
    reg = None
    if seed % 2:
        # a registry over some of the calls (in-memory stores that return what was written, nothing stored yet:
        # every run rebuilds, so the value is the same as without a registry)
        class _St(uberjob.ValueStore):
            def __init__(self):
                self.v = None
                self.t = None

            def read(self):
                return self.v

            def write(self, v):
                self.v = v

            def get_modified_time(self):
                return None

        reg = uberjob.Registry()
        for cid in S.call_ids(scn):
            if rng.random() < 0.5:
                reg.add(b.node[cid], _St())
    d0 = (CS.plan_digest(b.plan), CS.registry_digest(reg) if reg is not None else None)
    results = [None] * nthreads
    errors = []

    def body():
        def one(i):
            try:
                results[i] = uberjob.run(b.plan, output=b.output, registry=reg, max_workers=rng.choice([1, 2]), progress=None, scheduler=rng.choice([None, "random"]))
            except BaseException as ex:  # noqa
                errors.append(repr(ex)[:300])

        ths = [sched.ns.Thread(target=one, args=(i,)) for i in range(nthreads)]
        for t in ths:
            t.start()
        for t in ths:
            t.join()
        return True

    out = sched.run(body)
    res = {"fails": [], "preemptions": sched.preemptions}
    if out["dead"]:
        res["_poisoned"] = True
    if out["outcome"] != "returned":
        res["fails"].append({"what": "concurrent_runs_hang_or_raise", "detail": (out["outcome"], repr(out["exc"])[:200])})
        return res
    if errors:
        res["fails"].append({"what": "concurrent_run_raised", "detail": errors[0]})
    for i, r in enumerate(results):
        if not errors and (r != expected or type(r) is not type(expected)):
            res["fails"].append({"what": "concurrent_run_wrong_value", "detail": f"thread {i}: {r!r:.200}"})
            break
    if (CS.plan_digest(b.plan), CS.registry_digest(reg) if reg is not None else None) != d0:
        res["fails"].append({"what": "plan_changed_by_concurrent_runs", "detail": "the caller's Plan / Registry differ after the concurrent runs returned"})
    return res


def copy_independence(arg):
    """Random sequences of mutations applied to a plan / registry and to copies taken at random moments."""
    seed = arg
    import uberjob

    rng = random.Random(seed)
    fails = []
    plan = uberjob.Plan()
    reg = uberjob.Registry()
    nodes = [plan.call(lambda: 1)]
    copies = []  # (plan copy, registry copy, digest of each when taken, nodes at that time)

    class St(uberjob.ValueStore):
        def read(self):
            return 0

        def write(self, v):
            pass

        def get_modified_time(self):
            return None

    def mutate(p, r, ns):
        k = rng.random()
        if k < 0.4:
            ns.append(p.call(lambda *a: 0, *rng.sample(ns, min(len(ns), rng.randint(0, 2)))))
        elif k < 0.55 and len(ns) >= 2:
            a, b_ = sorted(rng.sample(range(len(ns)), 2))
            p.add_dependency(ns[a], ns[b_])
        elif k < 0.7:
            with p.scope("s", rng.randint(0, 3)):
                ns.append(p.lit(rng.random()))
        elif k < 0.85:
            cand = [n for n in ns if n not in r]
            if cand:
                r.add(rng.choice(cand), St())
        else:
            ns.append(r.source(p, St()))

    for _ in range(rng.randint(4, 12)):
        if rng.random() < 0.3:
            cp, cr = (plan.copy(), reg.copy()) if rng.random() < 0.5 else (__import__("copy").copy(plan), __import__("copy").copy(reg))
            copies.append([cp, cr, list(nodes)])
        # mutate the original or one of the copies; everything else must keep its digest
        targets = [(plan, reg, nodes)] + [(c[0], c[1], c[2]) for c in copies]
        ti = rng.randrange(len(targets))
        before = [(CS.plan_digest(t[0]), CS.registry_digest(t[1])) for t in targets]
        mutate(*targets[ti])
        after = [(CS.plan_digest(t[0]), CS.registry_digest(t[1])) for t in targets]
        for j, (x, y) in enumerate(zip(before, after)):
            if j != ti and x != y:
                fails.append({"what": "copy_not_independent", "detail": f"mutating object {ti} changed object {j}"})
    return {"fails": fails, "copies": len(copies)}


def shared_registry(arg):
    """One Registry used for two plans (entries for nodes the plan being run does not contain): whatever
    run / dry_run do with such a registry - succeed or refuse - they must not change it."""
    seed = arg
    import uberjob

    rng = random.Random(seed)
    fails = []

    class St(uberjob.ValueStore):
        def __init__(self):
            self.v = None

        def read(self):
            return self.v

        def write(self, v):
            self.v = v

        def get_modified_time(self):
            return None

    reg = uberjob.Registry()
    plans = []
    for _p in range(2):
        plan = uberjob.Plan()
        prev = None
        for i in range(rng.randint(1, 3)):
            prev = plan.call(lambda *a: len(a), *([prev] if prev is not None else []))
            if rng.random() < 0.8:
                reg.add(prev, St())
        plans.append((plan, prev))
    for plan, out in plans:
        d0 = CS.registry_digest(reg), CS.plan_digest(plan)
        for dry in (True, False):
            try:
                uberjob.run(plan, registry=reg, output=out, dry_run=dry, progress=None, max_workers=1)
            except Exception:
                pass
            if (CS.registry_digest(reg), CS.plan_digest(plan)) != d0:
                fails.append({"what": "registry_changed_by_run", "detail": f"dry_run={dry}: {len(d0[0][3])} entries before, {len(CS.registry_digest(reg)[3])} after"})
                return {"fails": fails}
    return {"fails": fails}


def scope_lock_independence(arg):
    """While one thread is inside `with plan.scope(...)` on the original plan, runs of that plan (which work on a
    private copy and enter scopes on it when a registry is given) and scopes on explicit copies must not wait for it."""
    seed = arg
    import threading

    import uberjob

    class St(uberjob.ValueStore):
        def read(self):
            return 1

        def write(self, v):
            pass

        def get_modified_time(self):
            return None

    plan = uberjob.Plan()
    reg = uberjob.Registry()
    with plan.scope("s"):
        a = plan.call(lambda: 1)
    reg.add(a, St())
    cp = plan.copy()
    done = {"run": False, "copy": False}

    def runner():
        uberjob.run(plan, registry=reg, output=a, progress=None, max_workers=1)
        done["run"] = True

    def copier():
        with cp.scope("t"):
            cp.lit(1)
        done["copy"] = True

    fails = []
    with plan.scope("held", seed):
        ths = [threading.Thread(target=runner, daemon=True), threading.Thread(target=copier, daemon=True)]
        for t in ths:
            t.start()
        for t in ths:
            t.join(timeout=60)
    if not done["run"]:
        fails.append({"what": "run_waits_for_original_scope", "detail": "uberjob.run did not finish while another thread was inside plan.scope on the original"})
    if not done["copy"]:
        fails.append({"what": "copy_waits_for_original_scope", "detail": "entering a scope on a copy waited for the original's scope"})
    return {"fails": fails}


def run_extra(res, tier, seed):
    rng = random.Random(f"c13x-{seed}")
    cargs = [(seed * 104729 + i, rng.choice([2, 3]), rng.choice([{"kind": "random", "p": 0.15}, {"kind": "relyield", "q": 0.3}, {"kind": "pct", "depth": 3, "est_steps": 3000}]))
             for i in range(120 if tier == "quick" else 4000)]
    couts = common.pmap(concurrent_runs, cargs)
    for a, o in zip(cargs, couts):
        for f in o["fails"]:
            res.add_violation(f"C13:concurrent:{f['what']}", f"{a[1]} threads running one plan concurrently: {f['what']} {f['detail']}", {"extra": "concurrent", "arg": list(a), "failure": f})
    pargs = [seed * 1299709 + i for i in range(300 if tier == "quick" else 10000)]
    pouts = common.pmap(copy_independence, pargs)
    for a, o in zip(pargs, pouts):
        for f in o["fails"][:1]:
            res.add_violation(f"C13:copy:{f['what']}", f"Plan.copy / Registry.copy: {f['detail']}", {"extra": "copy", "arg": a, "failure": f})
    sargs = [seed * 15485863 + i for i in range(60 if tier == "quick" else 2000)]
    souts = common.pmap(shared_registry, sargs)
    for a, o in zip(sargs, souts):
        for f in o["fails"][:1]:
            res.add_violation(f"C13:shared_registry:{f['what']}", f"a Registry shared by two plans: {f['detail']}", {"extra": "shared_registry", "arg": a, "failure": f})
    louts = common.pmap(scope_lock_independence, [seed, seed + 1], nproc=2)
    for a, o in zip([seed, seed + 1], louts):
        for f in o["fails"][:1]:
            res.add_violation(f"C13:scope_lock:{f['what']}", f["detail"], {"extra": "scope_lock", "arg": a, "failure": f})
    res.coverage["shared_registry_cases"] = len(sargs)
    res.merge_counts(evaluations=len(cargs) + len(pargs) + len(sargs) + 2)
    res.coverage["concurrent_executions"] = len(cargs)
    res.coverage["concurrent_with_preemption"] = sum(1 for o in couts if o["preemptions"] > 0)
    res.coverage["copy_sequences"] = len(pargs)
    res.coverage["copies_taken"] = sum(o["copies"] for o in pouts)


def replay_extra(wit):
    if wit["extra"] == "concurrent":
        a = wit["arg"]
        return concurrent_runs((a[0], a[1], a[2]))["fails"]
    if wit["extra"] == "shared_registry":
        return shared_registry(wit["arg"])["fails"]
    if wit["extra"] == "scope_lock":
        return scope_lock_independence(wit["arg"])["fails"]
    return copy_independence(wit["arg"])["fails"]
