"""C07 — run always terminates and leaves nothing running; cycles are rejected up front."""
from .. import common, engine_campaign as C
from . import engine_common as EC

PROP = "C07"


def run(tier, seed):
    res = common.Result(PROP, tier, seed, "model_checking")
    res.assumptions = list(EC.ASSUMPTIONS) + [
        "termination of the implementation is bounded: no deadlock and completion within a step budget under every explored schedule",
    ]
    if tier == "quick":
        variants = [dict(N=3, maxw=2, configs="ConfigsNoFail", spawn=True), dict(N=3, maxw=2, configs="ConfigsFull")]
        n, opfrac = 1200, 0.15
    else:
        variants = [dict(N=3, maxw=2, configs="ConfigsFewFail", intr=True, spawn=True), dict(N=3, maxw=3, configs="ConfigsFull"),
                    dict(N=4, maxw=3, configs="ConfigsNoFail", spawn=True), dict(N=5, maxw=4, configs="ConfigsRef", spawn=True)]
        n, opfrac = 40000, 0.3
    runs = EC.run_engine_mc(res, variants)
    EC.mc_verdict(res, PROP, runs, ["Terminates", "CleanAtEnd"])
    tl = [C.gen_tasks("mixed", n, seed + 400, opcode_frac=opfrac), C.gen_tasks("fail", n // 2, seed + 401, opcode_frac=opfrac),
          C.gen_tasks("spawnfail", n // 4, seed + 402, opcode_frac=0.0)]
    EC.campaign(res, PROP, tl,
                "executions under the deterministic scheduler with its deadlock detector and step budget: all failure "
                "patterns, W from 1 to n+1, both schedulers, plus a failing Thread.start(); after run returned the "
                "scheduler is driven to quiescence (no later call event, no thread left); non-trivial = distinct "
                "execution with a preemptive switch")
    from . import c07_cycles

    c07_cycles.run(res, tier, seed)
    return res


def replay(w):
    if w.get("witness", {}).get("kind") == "cycle":
        from . import c07_cycles

        return c07_cycles.replay(w)
    return EC.replay(PROP, w)
