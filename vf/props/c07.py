"""C07 — run always terminates and leaves nothing running; cycles are rejected up front."""
from .. import common, engine_campaign as C
from . import engine_common as EC

PROP = "C07"


def run(tier, seed):
    res = common.Result(PROP, tier, seed, "model_checking")
    res.assumptions = list(EC.ASSUMPTIONS) + [
        "termination of the implementation is bounded: no deadlock and completion within a step budget under every explored schedule",
    ]
    if tier == "quick":
        variants = [dict(N=3, maxw=2, configs="ConfigsNoFail", spawn=True), dict(N=3, maxw=2, configs="ConfigsFull")]
        n, opfrac = 1200, 0.15
    else:
        variants = [dict(N=3, maxw=2, configs="ConfigsFewFail", intr=True, spawn=True), dict(N=3, maxw=3, configs="ConfigsFull"),
                    dict(N=4, maxw=3, configs="ConfigsNoFail", spawn=True), dict(N=4, maxw=2, configs="ConfigsFewFail", spawn=True)]
        n, opfrac = 40000, 0.3
    runs = EC.run_engine_mc(res, variants)
    EC.mc_verdict(res, PROP, runs, ["Terminates", "CleanAtEnd"])
    tl = [C.gen_tasks("mixed", n, seed + 400, opcode_frac=opfrac), C.gen_tasks("fail", n // 2, seed + 401, opcode_frac=opfrac),
          C.gen_tasks("spawnfail", n // 4, seed + 402, opcode_frac=0.0)]
    tl.append(C.bundled_observer_tasks(seed, 150 if tier == "quick" else 5000, "mixed"))
    EC.campaign(res, PROP, tl,
                "executions under the deterministic scheduler with its deadlock detector and step budget: all failure "
                "patterns, W from 1 to n+1, both schedulers, plus a failing Thread.start(); after run returned the "
                "scheduler is driven to quiescence (no later call event, no thread left); non-trivial = distinct "
                "execution with a preemptive switch")
    from . import c07_cycles

    c07_cycles.run(res, tier, seed)
    # threads of progress observers are threads run created too: a composite whose later member cannot be entered
    from . import c15

    c15.run_partial(res, PROP)
    return res


def replay(w):
    if w.get("witness", {}).get("partial"):
        from . import c15

        r = c15.composite_partial_enter((tuple(w["witness"]["order"]), None))
        print(r)
        bad = any(f["what"] == "observer_thread_left_running" for f in r["fails"])
        if bad:
            print("VIOLATION property=C07 replay=(reproduced)")
        return 1 if bad else 0
    if w.get("witness", {}).get("kind") == "cycle":
        from . import c07_cycles

        return c07_cycles.replay(w)
    return EC.replay(PROP, w)
