"""C18 — staleness depends only on instants, not on time zone or naive/aware form.
TimeNorm.tla is the decision table (zones with a daylight-saving fall-back, instants on a grid,
naive-local and aware representations); TLC checks it exhaustively. The same table is executed on
the real stale check in processes under several TZ settings, with stores (and real files) whose
modified times are the prescribed datetime objects; TimeNormTrace.tla resolves what the datetime
objects carried (wall clock, fold, utcoffset) to instants and requires the observed decision to
be the decision on instants."""
import datetime as dt
import os
import time

from .. import common, tlc

PROP = "C18"
TZS = ["UTC", "America/New_York", "Asia/Tokyo", "Australia/Lord_Howe", "Europe/London"]
AWARE_OFFSETS = [-300, 0, 540, 630]


def run_mc(res, naive_is_local, window=10):
    cfg = f"""CONSTANTS
  Window = {window}
  Zones <- MCZones
  AwareOffsets <- MCOffsets
  NaiveIsLocal = {'TRUE' if naive_is_local else 'FALSE'}
SPECIFICATION Spec
INVARIANT DecisionDependsOnInstantsOnly
CHECK_DEADLOCK FALSE
"""
    with common.scratch("vf-tn-") as d:
        p = os.path.join(d, "mc.cfg")
        open(p, "w").write(cfg)
        r = tlc.run_tlc("MC_TimeNorm", p, timeout=900)
    res.merge_counts(states=r.distinct, transitions=r.states)
    res.coverage.setdefault("tlc_runs", []).append({"module": "MC_TimeNorm", "NaiveIsLocal": naive_is_local, "Window": window,
                                                   "distinct_states": r.distinct, "ok": r.ok, "violated": r.violated, "wall_s": round(r.wall, 1)})
    return r


def fallback_transition(tzname, year=2026):
    """UTC timestamp of the first instant after a fall-back (offset decrease) of the zone in `year`, or a fixed date."""
    from zoneinfo import ZoneInfo

    z = ZoneInfo(tzname)
    t = dt.datetime(year, 1, 1, tzinfo=dt.timezone.utc)
    end = dt.datetime(year + 1, 1, 1, tzinfo=dt.timezone.utc)
    prev = t.astimezone(z).utcoffset()
    step = dt.timedelta(minutes=30)
    while t < end:
        t2 = t + step
        off = t2.astimezone(z).utcoffset()
        if off < prev:
            # refine to the minute
            lo, hi = t, t2
            while hi - lo > dt.timedelta(minutes=1):
                mid = lo + (hi - lo) / 2
                mid = mid.replace(second=0, microsecond=0)
                if mid <= lo:
                    break
                if mid.astimezone(z).utcoffset() < prev:
                    hi = mid
                else:
                    lo = mid
            return int(hi.timestamp()), int(prev.total_seconds() // 60), int(off.total_seconds() // 60)
        prev = off
        t = t2
    o = int(prev.total_seconds() // 60)
    return int(dt.datetime(year, 11, 1, 6, 0, tzinfo=dt.timezone.utc).timestamp()), o, o


def run_zone(arg):
    """All cases for one process time zone. Returns the trace record and counters."""
    tzname, step_min, span_min, with_files, seed = arg
    os.environ["TZ"] = tzname
    time.tzset()
    import uberjob
    from uberjob.stores import JsonFileStore
    from zoneinfo import ZoneInfo

    t_ts, before, after = fallback_transition(tzname)
    base0 = t_ts - span_min * 60
    base_naive_utc = dt.datetime(1970, 1, 1) + dt.timedelta(seconds=base0)
    zone = {"t": span_min, "before": before, "after": after}
    grid = list(range(0, 2 * span_min + 1, step_min))

    def minutes(naive):
        return int((naive - base_naive_utc).total_seconds() // 60)

    def rep(m, kind):
        """(datetime object, trace record) for the instant base0 + m minutes in representation `kind`."""
        ts = base0 + m * 60
        if kind == "naive":
            d = dt.datetime.fromtimestamp(ts)
            return d, {"kind": "naive", "wall": minutes(d.replace(fold=0)), "fold": d.fold, "off": 0}
        if kind == "zoneinfo":
            d = dt.datetime.fromtimestamp(ts, tz=ZoneInfo(tzname))
        else:
            d = dt.datetime.fromtimestamp(ts, tz=dt.timezone(dt.timedelta(minutes=kind)))
        off = int(d.utcoffset().total_seconds() // 60)
        return d, {"kind": "aware", "wall": minutes(d.replace(tzinfo=None)), "fold": 0, "off": off}

    NONE = {"kind": "none", "wall": 0, "fold": 0, "off": 0}

    class MtStore(uberjob.ValueStore):
        def __init__(self, mt):
            self.mt = mt
            self.writes = 0

        def read(self):
            return 1

        def write(self, v):
            self.writes += 1

        def get_modified_time(self):
            return self.mt

    class Probe(JsonFileStore):
        """The library's file store, except that a write is only counted (the file and its modified time stay)."""

        writes = 0

        def write(self, value):
            self.writes += 1

    def decide(own_d, up_d, fr_d, depth=0):
        """depth: number of calls WITHOUT a store between the upstream source and the stored call (the
        upstream instant is handed down through them)."""
        plan = uberjob.Plan()
        reg = uberjob.Registry()
        so = MtStore(own_d)
        if up_d is not None:
            src = reg.source(plan, MtStore(up_d))
            for _ in range(depth):
                src = plan.call(lambda x: x, src)
            a = plan.call(lambda x: x, src)
        else:
            a = plan.call(lambda: 1)
        reg.add(a, so)
        uberjob.run(plan, registry=reg, fresh_time=fr_d, progress=None, max_workers=1)
        return so.writes > 0

    kinds = ["naive", "zoneinfo"] + AWARE_OFFSETS
    events = []
    n = 0
    for mo in grid:
        for ko in kinds:
            own_d, own_r = rep(mo, ko)
            for mx in grid:
                for kx in kinds:
                    x_d, x_r = rep(mx, kx)
                    events.append({"own": own_r, "up": x_r, "fr": NONE, "rebuilt": decide(own_d, x_d, None)})
                    events.append({"own": own_r, "up": NONE, "fr": x_r, "rebuilt": decide(own_d, None, x_d)})
                    # the same decision with the upstream instant passed through 1 or 2 calls that have no store
                    events.append({"own": own_r, "up": x_r, "fr": NONE, "rebuilt": decide(own_d, x_d, None, depth=1 + n // 2 % 2)})
                    n += 3
    # real files: the library's own get_modified_time produces the naive-local datetime
    nfile = 0
    if with_files:
        with common.scratch("vf-c18-") as d:
            for mo in grid:
                for mx in grid:
                    po, pu = os.path.join(d, "own.json"), os.path.join(d, "up.json")
                    for p, m in ((po, mo), (pu, mx)):
                        with open(p, "w") as f:
                            f.write("1")
                        ts = base0 + m * 60
                        os.utime(p, (ts, ts))
                    plan = uberjob.Plan()
                    reg = uberjob.Registry()
                    src = reg.source(plan, JsonFileStore(pu))
                    a = plan.call(lambda x: x, src)
                    so = Probe(po)
                    reg.add(a, so)
                    own_r = rep(mo, "naive")[1]
                    up_r = rep(mx, "naive")[1]
                    so.writes = 0
                    uberjob.run(plan, registry=reg, progress=None, max_workers=1)
                    events.append({"own": own_r, "up": up_r, "fr": NONE, "rebuilt": so.writes > 0})
                    for kx in ("naive", 0, 540):
                        fr_d, fr_r = rep(mx, kx)
                        os.utime(pu, (base0 - 86400, base0 - 86400))
                        so.writes = 0
                        uberjob.run(plan, registry=reg, progress=None, max_workers=1, fresh_time=fr_d)
                        events.append({"own": own_r, "up": NONE, "fr": fr_r, "rebuilt": so.writes > 0, "file": True})
                        os.utime(pu, (base0 + mx * 60, base0 + mx * 60))
                    nfile += 4
    for e in events:
        e.pop("file", None)
    return {"trace": {"tz": tzname, "zone": zone, "lo": -4 * span_min, "hi": 6 * span_min, "events": events}, "n": n, "nfile": nfile}


def run(tier, seed):
    res = common.Result(PROP, tier, seed, "model_checking")
    res.assumptions = [
        "naive datetimes denote local time (as the bundled file stores produce and the documentation passes)",
        "process time zones are set with TZ + time.tzset(); zone descriptions come from zoneinfo; one fall-back transition lies inside each window",
        "only pairs of times are varied (own vs one upstream time, own vs fresh_time): the decision is a disjunction over the other times",
    ]
    r = run_mc(res, True, 10 if tier == "quick" else 16)
    if not r.ok:
        raise common.MachineryError(f"TLC did not verify TimeNorm.tla: {r.violated}\n{r.trace[:2000] or r.out[-2000:]}")
    r0 = run_mc(res, False, 6)
    res.coverage["spec_mutant_rejected"] = {"NaiveIsLocal=FALSE (the normalisation before the fix)": r0.violated}
    if r0.ok:
        raise common.MachineryError("TimeNorm.tla accepts the normalisation that leaves naive datetimes alone: the property is vacuous")
    step, span = (60, 180) if tier == "quick" else (15, 180)
    args = [(tz, step, span, True, seed) for tz in TZS]
    if tier == "quick":
        args += [(tz, 30, 90, False, seed) for tz in ("America/New_York", "Australia/Lord_Howe")]
    outs = common.pmap(run_zone, args, nproc=len(args))
    traces = [o["trace"] for o in outs]
    slim = [{"zone": t["zone"], "lo": t["lo"], "hi": t["hi"], "events": t["events"]} for t in traces]
    # TLC validates each zone's table (split into chunks so that the work spreads over the cores)
    chunks, owner = [], []
    for t in slim:
        ev = t["events"]
        for i in range(0, len(ev), 1500):
            chunks.append({"zone": t["zone"], "lo": t["lo"], "hi": t["hi"], "events": ev[i:i + 1500]})
            owner.append(t)
    per = max(1, (len(chunks) + common.NPROC - 1) // common.NPROC)
    batches = [(i, chunks[i:i + per]) for i in range(0, len(chunks), per)]
    vouts = common.pmap(_validate_batch, batches)
    rej, states = {}, 0
    for (i0, _b), (rj, st) in zip(batches, vouts):
        states += st
        for k, v in rj.items():
            rej[i0 + int(k) - 1] = v
    ncases = sum(len(t["events"]) for t in traces)
    res.merge_counts(states=states, transitions=states, traces_validated_against_impl=len(chunks), evaluations=ncases,
                     distinct_nontrivial=ncases)
    res.coverage["decisions_per_zone"] = {f"{a[0]}/{a[1]}min": len(o["trace"]["events"]) for a, o in zip(args, outs)}
    res.coverage["file_backed_decisions"] = sum(o["nfile"] for o in outs)
    res.coverage["zones"] = {t["tz"]: t["zone"] for t in traces}
    res.coverage["rule"] = ("for each process time zone (UTC, America/New_York, Asia/Tokyo, Australia/Lord_Howe, Europe/London): every pair of instants on a grid "
                            "spanning the zone's daylight-saving fall-back (both passes through the repeated hour) x every pair of representations "
                            "(naive local, aware in the zone itself and at -5h, UTC, +9h, +10:30) x {upstream modified time, fresh_time}; plus file-backed stores whose "
                            "mtime is set with os.utime; every decision is a distinct case")
    for idx, clauses in sorted(rej.items()):
        ch = chunks[idx]
        for l, c in clauses[:1]:
            e = ch["events"][l - 1]
            forms = f"{e['own']['kind']}-vs-{(e['up'] if e['up']['kind'] != 'none' else e['fr'])['kind']}"
            tzname = next(t["tz"] for t in traces if t["zone"] == ch["zone"] and t["lo"] == ch["lo"])
            sig_zone = "utc" if ch["zone"]["before"] == 0 == ch["zone"]["after"] else "nonutc"
            res.add_violation(f"C18:{c}:{forms}:{sig_zone}", f"TZ={tzname}: {c}: own {e['own']}, upstream {e['up']}, fresh_time {e['fr']}, rebuilt={e['rebuilt']}",
                              {"tz": tzname, "zone": ch["zone"], "case": e, "clauses": clauses[:5]})
    res.add_samples([{"tz": traces[1]["tz"], "zone": traces[1]["zone"], "events": traces[1]["events"][100:104]}])
    return res


def _validate_batch(arg):
    _i, batch = arg
    _acc, rej, r = tlc.validate_traces("TimeNormTrace", "TimeNormTrace.cfg", batch, timeout=1500)
    return {str(k): v for k, v in rej.items()}, (r.distinct if r else 0)


def replay(w):
    wit = w["witness"]
    o = run_zone((wit["tz"], 60, 180, False, 0))
    _acc, rej, _r = tlc.validate_traces("TimeNormTrace", "TimeNormTrace.cfg", [{k: o["trace"][k] for k in ("zone", "lo", "hi", "events")}])
    print({k: v[:3] for k, v in rej.items()})
    if rej:
        print(f"VIOLATION property={PROP} replay=(reproduced)")
        return 1
    print("not reproduced")
    return 0
