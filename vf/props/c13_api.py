"""Specification -> implementation replay for the construction API (PlanApi.tla): behaviours produced by TLC in
simulation mode are performed step by step on real Plan / Registry objects; after every step the projected real
state (nodes and edges per plan, scope stacks, registry contents) must equal the specification's, and refused
operations must be refused. The frame condition of the specification is the 'copies are independent' part of C13."""
import json

from .. import common, tlc


def generate(n, seed):
    r = tlc.run_tlc("PlanApi", "PlanApi.cfg", workers=1, timeout=900, simulate=f"num={n}", depth=14, seed=seed, deadlock=False)
    behaviours = []
    seen = set()
    for line in r.out.splitlines():
        if not line.startswith('"['):
            continue
        if line in seen:
            continue
        seen.add(line)
        try:
            behaviours.append(json.loads(json.loads(line)))
        except ValueError:
            continue
    behaviours = [b for b in behaviours if b]
    if not behaviours:
        raise common.MachineryError(f"TLC produced no behaviours of PlanApi:\n{r.out[-1500:]}")
    return behaviours, r


def replay_behaviour(beh):
    import uberjob

    class St(uberjob.ValueStore):
        def read(self):
            return 0

        def write(self, v):
            pass

        def get_modified_time(self):
            return None

    plans, regs, nodes, scopes = [], [], [None], []  # node ids are 1-based
    nid = {}

    def cur_scope(p):
        """The plan's current scope: the one tuple-valued attribute of a Plan object, whatever its private name."""
        v = getattr(p, "_scope", None)
        if isinstance(v, tuple):
            return v
        ts = [x for x in vars(p).values() if isinstance(x, tuple)]
        if len(ts) != 1:
            raise common.MachineryError("cannot find the current scope on a Plan object")
        return ts[0]

    def project():
        obs = {"plans": [], "regs": [], "nnodes": len(nodes) - 1}
        for p in plans:
            g = p.graph
            obs["plans"].append({"nn": g.number_of_nodes(), "ne": g.number_of_edges(), "scope": list(cur_scope(p)),
                                 "nodes": sorted(nid.get(id(n), -1) for n in g.nodes())})
        for r in regs:
            obs["regs"].append(sorted(nid.get(id(n), -1) for n in r.keys()))
        return obs

    for k, rec in enumerate(beh):
        a = rec["act"]
        raised = None
        try:
            name = a["a"]
            if name == "new_plan":
                plans.append(uberjob.Plan()); scopes.append([])
            elif name == "new_registry":
                regs.append(uberjob.Registry())
            elif name == "call":
                p = plans[a["p"] - 1]
                n = p.call(lambda *x: 0, *([nodes[a["x"]]] if a["x"] else []))
                nodes.append(n); nid[id(n)] = len(nodes) - 1
                if list(n.scope) != list(cur_scope(p)):
                    return {"step": k, "what": "node_scope", "detail": f"{n.scope} vs {cur_scope(p)}"}
            elif name == "lit":
                p = plans[a["p"] - 1]
                n = p.lit(object())
                nodes.append(n); nid[id(n)] = len(nodes) - 1
            elif name == "add_dependency":
                plans[a["p"] - 1].add_dependency(nodes[a["x"]], nodes[a["y"]])
            elif name == "scope_enter":
                cm = plans[a["p"] - 1].scope(a["x"]); cm.__enter__(); scopes[a["p"] - 1].append(cm)
            elif name == "scope_exit":
                scopes[a["p"] - 1].pop().__exit__(None, None, None)
            elif name == "copy_plan":
                plans.append(plans[a["p"] - 1].copy() if k % 2 else __import__("copy").copy(plans[a["p"] - 1])); scopes.append([])
            elif name == "registry_add":
                regs[a["r"] - 1].add(nodes[a["x"]], St())
            elif name == "registry_source":
                n = regs[a["r"] - 1].source(plans[a["p"] - 1], St())
                nodes.append(n); nid[id(n)] = len(nodes) - 1
            elif name == "copy_registry":
                regs.append(regs[a["r"] - 1].copy() if k % 2 else __import__("copy").copy(regs[a["r"] - 1]))
            else:
                return {"step": k, "what": "unknown_action", "detail": name}
        except Exception as ex:  # noqa
            raised = ex
        if a["ok"] and raised is not None:
            return {"step": k, "what": "refused_a_legal_operation", "detail": f"{a} raised {raised!r:.200}"}
        if not a["ok"] and raised is None:
            return {"step": k, "what": "accepted_an_illegal_operation", "detail": f"{a}"}
        want = rec["obs"]
        got = project()
        # TLC renders a function with domain 1..n as a JSON array; an empty one as an empty array
        wp = [{"nn": x["nn"], "ne": x["ne"], "scope": list(x["scope"]), "nodes": list(x["nodes"])} for x in want["plans"]]
        wr = [list(x) for x in want["regs"]]
        if got["plans"] != wp or got["regs"] != wr or got["nnodes"] != want["nnodes"]:
            return {"step": k, "what": "state_differs_after_step", "detail": f"after {a}: real {got} / spec plans {wp} regs {wr}"[:600]}
    # leave scopes cleanly
    for st in scopes:
        while st:
            try:
                st.pop().__exit__(None, None, None)
            except Exception:
                break
    return None


def _replay(beh):
    return replay_behaviour(beh)


def run_api(res, tier, seed):
    behs, r = generate(300 if tier == "quick" else 6000, seed)
    outs = common.pmap(_replay, behs)
    for b, o in zip(behs, outs):
        if o:
            res.add_violation(f"C13:api:{o['what']}", f"construction API replay of a PlanApi.tla behaviour: {o['what']} at step {o['step']}: {o['detail']}",
                              {"extra": "api", "behaviour": b, "failure": o})
    res.merge_counts(evaluations=len(behs), traces_validated_against_impl=len(behs), states=max(1, r.states), transitions=max(1, r.states))
    res.coverage["api_behaviours_replayed"] = len(behs)
    res.coverage["api_steps_replayed"] = sum(len(b) for b in behs)
    acts = {}
    for b in behs:
        for rec in b:
            k = rec["act"]["a"] + ("" if rec["act"]["ok"] else "(refused)")
            acts[k] = acts.get(k, 0) + 1
    res.coverage["api_actions_replayed"] = acts
