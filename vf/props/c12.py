"""C12 — see DESIGN.md section 6.C12; shared machinery in fs_common.py (and c12_values.py)."""
from .. import common
from . import c12_values as V, fs_common as F

PROP = "C12"


def run(tier, seed):
    res = common.Result(PROP, tier, seed, "exploration")
    res.assumptions = list(F.ASSUMPTIONS)
    r = F.run_mc(res, cleanup=True, maxwrites=3)
    if not r.ok:
        raise common.MachineryError(f"TLC did not verify FileStore.tla: {r.violated}\n{r.trace[:3000] or r.out[-2000:]}")
    cfgs = V.configs()
    seeds = [seed] if tier == "quick" else [seed + i for i in range(8)]
    args = [(c, sd, 12) for c in cfgs for sd in seeds]
    outs = common.pmap(V.run_config, args)
    traces, owner = [], []
    nvals = 0
    for a, o in zip(args, outs):
        nvals += o["values"]
        for t in o["traces"]:
            traces.append(t)
            owner.append(o["config"])
        for f in o["fails"]:
            what = "write refused" if "write_error" in f else "read failed" if "read_error" in f else "read returned a different value"
            cls = _value_class(f.get("value"))
            res.add_violation(f"C12:roundtrip:{f['kind']}:{cls}", f"{f['kind']} {f['kw']} ({f['path']} path): {what} for {f.get('value')}: {f.get('got') or f.get('write_error') or f.get('read_error')}", {"failure": f})
    rej, states = F.validate(traces)
    for idx, clauses in sorted(rej.items()):
        by = F.classify(clauses)
        for p, cs in by.items():
            if p == PROP:
                c0 = cs[0].replace("(secondary)", "")
                if c0 == "read_returns_target" and any(v.signature.startswith("C12:roundtrip:" + owner[idx][0].replace("Mounted:", "")) or v.signature.startswith("C12:roundtrip:" + owner[idx][0]) for v in res.violations):
                    continue  # already reported with the concrete value by the driver
                res.add_violation(f"C12:register:{c0}:{owner[idx][0]}", f"{owner[idx]}: register clause {c0} broken", {"config": owner[idx], "clauses": clauses[:10]})
            elif p == "machinery":
                raise common.MachineryError(f"file-store monitor reported harness-level inconsistencies: {cs} for {owner[idx]}")
            else:
                res.coverage.setdefault("clauses_broken_for_other_properties", {}).setdefault(p, {})
                for c in cs:
                    d = res.coverage["clauses_broken_for_other_properties"][p]
                    d[c] = d.get(c, 0) + 1
    res.merge_counts(states=states, transitions=states, traces_validated_against_impl=len(traces), evaluations=nvals, distinct_nontrivial=nvals)
    # MountedStores used concurrently by uberjob's worker threads (controlled schedules)
    import random as _random

    rng = _random.Random(f"c12m-{seed}")
    margs = [(seed * 7919 + i, rng.choice([2, 3]), rng.choice([{"kind": "random", "p": 0.2}, {"kind": "relyield", "q": 0.3}, {"kind": "pct", "depth": 3, "est_steps": 1500}]))
             for i in range(160 if tier == "quick" else 5000)]
    mouts = common.pmap(V.mounted_concurrent, margs)
    for a, o in zip(margs, mouts):
        for f in o["fails"]:
            res.add_violation(f"C12:mounted_concurrent:{f['what']}", f"MountedStores used concurrently ({a[1]} stores): {f['what']}: {f['detail']}", {"mounted": True, "arg": list(a), "failure": f})
    sargs = [(seed * 6133 + i, ["str", "pathlib"][i % 2], rng.choice([{"kind": "random", "p": 0.2}, {"kind": "relyield", "q": 0.3}, {"kind": "pct", "depth": 3, "est_steps": 1500}]))
             for i in range(80 if tier == "quick" else 3000)]
    souts = common.pmap(V.siblings_concurrent, sargs)
    for a, o in zip(sargs, souts):
        for f in o["fails"]:
            res.add_violation(f"C12:siblings_concurrent:{f['what']}", f"sibling file stores ({a[1]} paths) used concurrently: {f['what']}: {f['detail']}", {"siblings": True, "arg": list(a), "failure": f})
    res.merge_counts(evaluations=len(margs) + len(sargs))
    res.coverage["sibling_concurrent_executions"] = len(sargs)
    res.coverage["mounted_concurrent_executions"] = len(margs)
    res.coverage["mounted_concurrent_with_preemption"] = sum(1 for o in mouts if o["preemptions"] > 0)
    res.coverage["store_configurations"] = len(cfgs)
    res.coverage["traces_accepted"] = len(traces) - len(rej)
    res.coverage["rule"] = ("for each store class x path kind x encoding (and each store behind a MountedStore): write / get_modified_time / read over the value "
                            "domain (explicit alphabet of line terminators, control characters, BMP/astral code points, empty and large values, nested JSON, "
                            "picklable objects, all byte values; seeded random members), then delete; compared strictly (equal and same type at every level); "
                            "every sequence validated against the register view of FileStore.tla; non-trivial = every written value (all distinct by construction or by position)")
    res.add_samples([{"config": owner[0], "events": [[e["e"], e["t"], e["none"]] for e in traces[0]["events"]][:30]}])
    return res


def replay(w):
    wit = w["witness"]
    if wit.get("siblings"):
        a = wit["arg"]
        o = V.siblings_concurrent((a[0], a[1], a[2]))
        print(o["fails"])
        if o["fails"]:
            print(f"VIOLATION property={PROP} replay=(reproduced)")
            return 1
        print("not reproduced")
        return 0
    if wit.get("mounted"):
        a = wit["arg"]
        o = V.mounted_concurrent((a[0], a[1], a[2]))
        print(o["fails"])
        if o["fails"]:
            print(f"VIOLATION property={PROP} replay=(reproduced)")
            return 1
        print("not reproduced")
        return 0
    if "failure" in wit:
        print("re-run ./check C12: the value driver re-creates the failing value from the seed")
        return 0
    return F.replay(PROP, w)


def _value_class(r):
    """Coarse class of a failing value, so that known findings are keyed by what fails, not by one input."""
    if r is None:
        return "none"
    if "\\r" in r:
        return "carriage_return"
    return "other"
