"""C03 — see DESIGN.md section 6.C03; shared machinery in caching_common.py."""
from .. import common
from . import caching_common as CC

PROP = "C03"


def run(tier, seed):
    res = common.Result(PROP, tier, seed, "model_checking")
    res.assumptions = list(CC.ASSUMPTIONS)
    fixed, sample = CC.mc_scenarios(tier, seed)
    CC.run_mc(res, fixed, 7 if tier == "quick" else 8, label="reference scenarios", outs_of=CC.few_outs)
    CC.run_mc(res, sample, 5, label="sampled 3-node role-assigned scenarios")
    n = 1400 if tier == "quick" else 6000
    tasks = CC.gen_tasks(n, seed, p_fault=0.35, p_dry=0.08, p_render=0.05, norm=None, nmax=8 if tier == "quick" else 10)
    tasks += CC.cut_enumeration_tasks(4 if tier == "quick" else 30, seed + 3)  # histories whose middle run is cut at every operation
    CC.campaign(res, PROP, tasks, 'histories (runs with any output / worker count / scheduler / max_errors, runs cut short by failing calls, failing store operations or a cut at the k-th operation as exception or process death, source updates, deletions, dry runs, renders) on seeded random role-assigned plans (3-8 nodes quick, 3-10 thorough) and on the exhaustive 3-node scenario family, executed on the real library and validated event by event against Caching.tla by TLC; non-trivial = a distinct (scenario, history) with at least two runs and at least one store write')
    return res


def replay(w):
    return CC.replay(PROP, w)
