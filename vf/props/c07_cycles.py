"""C07, second half: a dependency cycle among the nodes a run has to examine is reported as an
error before any call executes or any store is accessed."""
import random

from .. import common, scen as S, stores


def _one(task):
    import uberjob
    from uberjob.graph import Dependency, KeywordArg, PositionalArg

    scn = task["scn"]
    back = task["back"]  # [src, dst, kind]: src is a descendant-or-self of dst => cycle
    events = []

    class Ctx:
        exc_ids = []

        def log(self, ev, **kw):
            events.append((ev, kw.get("n")))

        def in_call(self):
            pass

    b = S.build(scn, Ctx())
    g = b.plan.graph
    u, v, kind = b.node[back[0]], b.node[back[1]], back[2]
    if kind == "dep":
        b.plan.add_dependency(u, v)
    elif kind == "pos":
        npos = sum(1 for _, _, k in g.in_edges(v, keys=True) if type(k) is PositionalArg)
        g.add_edge(u, v, PositionalArg(npos))
    else:
        nkw = sum(1 for _, _, k in g.in_edges(v, keys=True) if type(k) is KeywordArg)
        g.add_edge(u, v, KeywordArg(f"z{nkw}", nkw))
    registry = None
    world = stores.World(log=lambda ev, **kw: events.append((ev, kw.get("store"))))
    if task["registry"]:
        LS = stores.make_store_class()
        registry = uberjob.Registry()
        for i in task["registry"]:
            registry.add(b.node[i], LS(f"s{i}", world))
    out = {"raised": None, "events": None}
    import threading

    n_before = threading.active_count()
    try:
        uberjob.run(b.plan, output=b.output, registry=registry, max_workers=task["W"], progress=None,
                    scheduler=task["sched"], dry_run=task.get("dry_run", False))
        out["raised"] = None
    except BaseException as e:  # noqa
        out["raised"] = type(e).__name__
    out["events"] = events[:10]
    out["threads_left"] = threading.active_count() - n_before
    return out


def gen(seed, count):
    rng = random.Random(f"cyc-{seed}")
    tasks = []
    while len(tasks) < count:
        scn = S.random_scenario(rng, 2, 6, p_lit=0.1)
        anc = S.ancestors(scn)
        calls = S.call_ids(scn)
        if not calls:
            continue
        kind_of = {n["id"]: n["kind"] for n in scn["nodes"]}
        # choose dst, src with dst in anc[src] or dst == src
        src = rng.choice(S.node_ids(scn))
        cands = sorted(anc[src] | {src})
        dst = rng.choice(cands)
        kind = "dep" if kind_of[dst] == "lit" else rng.choice(["dep", "pos", "kw"])
        cyc_nodes = {src, dst} | (anc[src] - anc[dst] if dst != src else set())
        needed = set()
        for o in S.output_nodes(scn.get("output")):
            needed |= {o} | anc[o]
        use_reg = rng.random() < 0.5
        reg = sorted(rng.sample(calls, rng.randint(1, len(calls)))) if use_reg else []
        # must the run examine the cycle?  without registry: only the needed set; with one: every node
        must = bool(reg) or ({src, dst} <= needed)
        dry = rng.random() < 0.2
        if dry and not reg:
            must = False  # a dry run without registry examines nothing: it only prunes and returns the plan
        tasks.append({"scn": scn, "back": [src, dst, kind], "registry": reg, "W": rng.randint(1, 4),
                      "sched": rng.choice(["default", "random", None]), "must": must, "dry_run": dry})
    return tasks


def systematic(n=3):
    """Every multigraph DAG shape on n nodes x every back edge (self-loops and edges to an ancestor, of
    every kind the target admits), without registry and with every call registered."""
    tasks = []
    for scn in S.small_shapes(n):
        anc = S.ancestors(scn)
        kind_of = {x["id"]: x["kind"] for x in scn["nodes"]}
        calls = S.call_ids(scn)
        needed = set()
        for o in S.output_nodes(scn.get("output")):
            needed |= {o} | anc[o]
        for src in S.node_ids(scn):
            for dst in sorted(anc[src] | {src}):
                for kind in (("dep",) if kind_of[dst] == "lit" else ("dep", "pos", "kw")):
                    for reg in ([], calls):
                        must = bool(reg) or ({src, dst} <= needed)
                        tasks.append({"scn": scn, "back": [src, dst, kind], "registry": reg, "W": 2, "sched": None, "must": must, "dry_run": False})
    return tasks


def run(res, tier, seed):
    tasks = gen(seed, 400 if tier == "quick" else 6000)
    sysl = systematic(3)
    res.coverage["systematic_cyclic_plans_total"] = len(sysl)
    if tier == "quick":
        rng = random.Random(f"cycsys-{seed}")
        keep = [t for t in sysl if t["back"][0] == t["back"][1]]  # every self-loop
        rest = [t for t in sysl if t["back"][0] != t["back"][1]]
        sysl = keep + rng.sample(rest, min(len(rest), 1500))
    tasks += sysl
    outs = common.pmap(_one, tasks)
    n_must = 0
    for t, o in zip(tasks, outs):
        if not t["must"]:
            continue
        n_must += 1
        if o["raised"] is None:
            res.add_violation("C07:cycle:not_reported", "a cycle among the examined nodes was not reported as an error",
                              {"kind": "cycle", "task": t, "out": o})
        elif o["events"]:
            res.add_violation("C07:cycle:effects_before_report", f"calls or store accesses happened before the cycle was reported: {o['events'][:3]}",
                              {"kind": "cycle", "task": t, "out": o})
        elif o["threads_left"]:
            res.add_violation("C07:cycle:threads_left", "threads left running after the cycle was reported", {"kind": "cycle", "task": t, "out": o})
    res.merge_counts(evaluations=len(tasks))
    res.coverage["cyclic_plans_examined"] = n_must
    res.coverage["cyclic_plans_outside_needed_set"] = len(tasks) - n_must
    res.add_samples([{"cyclic_plan": tasks[0]["scn"]["edges"], "back_edge": tasks[0]["back"], "registry": tasks[0]["registry"], "result": outs[0]}], cap=5)


def replay(w):
    o = _one(w["witness"]["task"])
    print(o)
    bad = o["raised"] is None or bool(o["events"])
    if bad:
        print("VIOLATION property=C07 replay=(reproduced)")
    return 1 if bad else 0
