"""C01 — a call never starts before everything it depends on has finished successfully."""
import random

from .. import common, engine_campaign as C
from . import engine_common as EC

PROP = "C01"


def run(tier, seed):
    res = common.Result(PROP, tier, seed, "model_checking")
    res.assumptions = list(EC.ASSUMPTIONS)
    if tier == "quick":
        variants = [dict(N=3, maxw=3, configs="ConfigsNoFail"), dict(N=3, maxw=2, configs="ConfigsFewFail")]
        n_plain, n_small, n_enum, opfrac = 1200, 1, 4, 0.2
    else:
        variants = [dict(N=4, maxw=3, configs="ConfigsNoFail"), dict(N=3, maxw=3, configs="ConfigsFull"),
                    dict(N=5, maxw=4, configs="ConfigsRef")]
        n_plain, n_small, n_enum, opfrac = 40000, 6, 30, 0.3
    runs = EC.run_engine_mc(res, variants)
    EC.mc_verdict(res, PROP, runs, ["DepsOk", "RefinesRunAbs"])
    tl = [C.gen_tasks("plain", n_plain, seed, opcode_frac=opfrac, nmax=8 if tier == "quick" else 12)]
    tl.append(C.gen_tasks("fail", n_plain // 4, seed + 1, opcode_frac=opfrac))
    for k in range(n_small):
        tl.append(C.small_shape_tasks(3, seed + k))
    # bounded-preemption enumeration (b = 1) on a few small plans
    rng = random.Random(f"enum-{seed}")
    en = C.gen_tasks("plain", n_enum, seed + 7, opcode_frac=0.0, nmax=5)
    for t in en:
        t["mode"] = "enum1"
        t["opts"]["W"] = rng.choice([2, 3])
        t["enum_limit"] = 600 if tier == "quick" else 4000
    tl.append(en)
    tl.append(C.literal_chain_tasks(seed, 400 if tier == "quick" else 10000))
    tl.append(C.join_enum_tasks(seed, 4 if tier == "quick" else 24, limit=2500 if tier == "quick" else None))
    EC.campaign(res, PROP, tl,
                "executions of uberjob.run under the deterministic scheduler (random / PCT / all single preemptions), "
                "seeded random plans up to 8 (quick) or 12 nodes plus every multigraph DAG shape on 3 nodes; "
                "non-trivial = a distinct (plan, options, strategy, seed) in which at least one preemptive switch happened")
    return res


def replay(w):
    return EC.replay(PROP, w)
