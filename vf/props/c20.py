"""C20 — bundled progress displays render every reachable state, ending with the final one.
Progress.tla is used as a *generator*: TLC (simulation mode) produces legal notification
sequences with clock ticks and render points interleaved anywhere; each sequence is replayed,
for several families of concrete scope tuples, into the real ConsoleProgressObserver,
HtmlProgressObserver and IPythonProgressObserver with the clock replaced by the model's.
Oracles: nothing raises (in particular not inside the update thread, which would silently stop
the display), the last rendering that mentions a scope shows its final counts, and the elapsed
time attributed to scopes adds up to the model's `busy`."""
import contextlib
import io
import json
import os
import random
import re
import sys
import threading

from .. import common, tlc

PROP = "C20"


class Opaque:
    """A hashable, equatable scope value with no ordering."""

    def __init__(self, name):
        self.name = name

    def __repr__(self):
        return f"<{self.name}>"


def scope_families():
    """Concrete user scopes for the abstract scope ids 1..3 (the function name is appended as uberjob does)."""
    o1, o2, o3 = Opaque("o1"), Opaque("o2"), Opaque("o3")
    fam = {
        "ints": [(1,), (2,), (10,)],
        "strs": [("a",), ("b",), ("a.b",)],
        "mixed_types": [(1,), ("a",), (None,)],
        "lengths": [(), ("a",), ("a", "b")],
        "complex": [(1j,), (2j,), (3 + 1j,)],
        "opaque": [(o1,), (o2,), (o3,)],
        "classes": [(int,), (str,), (dict,)],
        "none": [(None,), (None, None), (None, 1)],
        "tuples": [((1, 2),), ((1, "a"),), ((None,),)],
        "bool_int": [(True,), (1.5,), (0,)],
        "frozensets": [(frozenset({1}),), (frozenset({2}),), (frozenset(),)],
    }
    out = {k: [(*s, f"mod.fn{i}") for i, s in enumerate(v)] for k, v in fam.items()}
    # distinct scopes that print alike: the displays must still keep them apart
    out["same_string"] = [(1, "f"), ("1", "f"), ("1, f",)]
    return out


def generate(n, seed, depth=60):
    """Legal notification sequences from TLC (simulation of ProgressGen)."""
    r = tlc.run_tlc("ProgressGen", "ProgressGen.cfg", workers=1, timeout=900, simulate=f"num={n}", depth=depth, seed=seed, deadlock=False)
    seqs = []
    for line in r.out.splitlines():
        if line.startswith('"['):
            try:
                seqs.append(json.loads(json.loads(line)))
            except ValueError:
                pass
    if not seqs:
        raise common.MachineryError(f"TLC produced no sequences:\n{r.out[-2000:]}")
    return seqs, r


class FakeTime:
    def __init__(self):
        self.now = 1000.0

    def time(self):
        return self.now


def progress_string(c, f, r, t):
    all_done = c + f == t
    started = c + f + r > 0
    s = f"{c} / {t}" if (all_done or not started) else f"({c} + {r}) / {t}"
    if f:
        s += f", {f} failed"
    return s


def wake(obs):
    """One wake-up of the observer's update thread, performed synchronously by running the thread's own loop with
    the shutdown event set (exactly one iteration: render if needed, emit), whatever locking it does itself."""
    obs._done_event.set()
    try:
        obs._run_update_thread()
    finally:
        obs._done_event.clear()


def replay_one(arg):
    """Replay one sequence for one scope family into the three observers. Returns a list of failures."""
    seq, famname, scopes = arg
    from uberjob.progress import _simple_progress_observer as SPO
    from uberjob.progress._console_progress_observer import ConsoleProgressObserver
    from uberjob.progress._html_progress_observer import HtmlProgressObserver
    from uberjob.progress._ipython_progress_observer import IPythonProgressObserver

    fails = []
    for obsname in ("console", "html", "ipython"):
        ft = FakeTime()
        real_time = SPO.time
        SPO.time = ft
        outputs = []
        thread_exc = []
        old_hook = threading.excepthook
        threading.excepthook = lambda a: thread_exc.append(repr(a.exc_value)[:300])
        stdout = io.StringIO()
        try:
            kw = dict(initial_update_delay=10**9, min_update_interval=10**9, max_update_interval=10**9)
            if obsname == "console":
                obs = ConsoleProgressObserver(**kw)
            elif obsname == "html":
                obs = HtmlProgressObserver(lambda b: outputs.append(b.decode()), **kw)
            else:
                obs = IPythonProgressObserver(**kw)
            final = {}
            busy = 0.0
            err = None
            with contextlib.redirect_stdout(stdout):
                try:
                    for e in seq:
                        k = e["e"]
                        sc = scopes[e["sc"] - 1] if e["sc"] else None
                        key = (e["sec"], sc)
                        if k == "enter":
                            pass  # no thread here: wake-ups are performed synchronously below (the threaded replay uses the real one)
                        elif k == "exit":
                            wake(obs)  # the final wake-up of the update thread
                        elif k == "total":
                            obs.increment_total(section=e["sec"], scope=sc, amount=e["amt"])
                            final.setdefault(key, [0, 0, 0, 0])[3] += e["amt"]
                        elif k == "running":
                            obs.increment_running(section=e["sec"], scope=sc)
                            final[key][2] += 1
                        elif k == "completed":
                            obs.increment_completed(section=e["sec"], scope=sc)
                            final[key][2] -= 1
                            final[key][0] += 1
                        elif k == "failed":
                            try:
                                raise ValueError("boom")
                            except ValueError as ex:
                                obs.increment_failed(section=e["sec"], scope=sc, exception=ex)
                            final[key][2] -= 1
                            final[key][1] += 1
                        elif k == "tick":
                            if any(v[2] > 0 for v in final.values()):
                                busy += 1.0
                            ft.now += 1.0
                        elif k == "render":
                            wake(obs)
                            if obsname == "console":
                                outputs.append(stdout.getvalue())
                                stdout.seek(0)
                                stdout.truncate()
                except Exception as ex:  # a notification or a rendering raised
                    err = f"{type(ex).__name__}: {ex}"
            if obsname == "console":
                outputs.append(stdout.getvalue())
            if err:
                fails.append({"obs": obsname, "what": "raised", "detail": err[:300]})
                continue
            if thread_exc:
                fails.append({"obs": obsname, "what": "update_thread_raised", "detail": thread_exc[0]})
                continue
            # the last rendering of each section shows the final counts of every scope (scopes that print alike are
            # compared as a multiset of rows)
            if any(e["e"] == "enter" for e in seq) and final:
                import collections
                import html as _h

                for sec in sorted({k[0] for k in final}):
                    want = collections.Counter((", ".join(str(x) for x in sc), progress_string(c, f, r, t)) for (s2, sc), (c, f, r, t) in final.items() if s2 == sec)
                    shown = None
                    if obsname == "console":
                        for out in outputs:
                            rows, insec = [], None
                            for line in out.splitlines():
                                if line in ("stale:", "run:"):
                                    insec = line[:-1]
                                elif insec == sec and line.startswith("  ") and " | " in line:
                                    parts = line.split(" | ", 2)
                                    if len(parts) == 3:
                                        rows.append((parts[2], parts[0].strip()))
                            if rows:
                                shown = collections.Counter(rows)
                    elif obsname == "html":
                        if outputs:
                            out = outputs[-1]
                            title = "Determining stale value stores" if sec == "stale" else "Running graph"
                            i = out.find(title)
                            j = out.find("</tbody>", i)
                            seg = out[i:j] if i >= 0 else ""
                            rows = []
                            for m in re.finditer(r'<td class="text-end">([^<]*(?:<span[^>]*>[^<]*</span>)?)</td>\s*<td class="text-end">[^<]*</td>\s*<td>([^<]*)</td>', seg):
                                rows.append((_h.unescape(m.group(2)).replace("\u200b", ""), re.sub(r"<span[^>]*>([^<]*)</span>", r"\1", _h.unescape(m.group(1))).strip()))
                            shown = collections.Counter(rows)
                    else:
                        cache = obs._widget_cache or {}
                        rows = []
                        for (s2, sc) in final:
                            if s2 == sec:
                                w = cache.get(("section", sec, "scope", sc, "label"))
                                rows.append((", ".join(str(x) for x in sc), w.value.split(";")[0].strip() if w is not None else None))
                        shown = collections.Counter(rows)
                    if shown != want:
                        fails.append({"obs": obsname, "what": "final_counts_not_shown", "detail": f"section {sec}: shown {sorted((shown or {}).items())!r:.300}, final {sorted(want.items())!r:.300}"})
                        break
            # elapsed attributed to scopes adds up to the time during which something was running
            total = sum(s.weighted_elapsed for m in obs._state.section_scope_mapping.values() for s in m.values())
            if abs(total - busy) > 1e-6 * max(1.0, busy):
                fails.append({"obs": obsname, "what": "elapsed_does_not_add_up", "detail": f"attributed {total}, busy {busy}"})
        finally:
            SPO.time = real_time
            threading.excepthook = old_hook
    return fails


def html_final_shown(out, sec, sc):
    """Progress string shown for (section, scope) in one HTML rendering, or None."""
    import html as _h

    scs = ", ".join(str(x) for x in sc)
    scs_h = _h.escape(scs.replace(".", "\u200b."))
    title = "Determining stale value stores" if sec == "stale" else "Running graph"
    i = out.find(title)
    j = out.find("</table>", i)
    seg = out[i:j] if i >= 0 else ""
    m = None
    for m in re.finditer(r'<td class="text-end">([^<]*(?:<span[^>]*>[^<]*</span>)?)</td>\s*<td class="text-end">[^<]*</td>\s*<td>' + re.escape(scs_h) + r"</td>", seg):
        pass
    if not m:
        return None
    return re.sub(r"<span[^>]*>([^<]*)</span>", r"\1", _h.unescape(m.group(1))).strip()


def replay_threaded(arg):
    """The same sequences with the *real update thread* running under the deterministic scheduler:
    notifications come from the calling thread, the observer's thread wakes on virtual timeouts and
    renders; preemption at every line of _simple_progress_observer.py. After __exit__ the last
    emitted rendering must show the final counts."""
    seq, scopes, seed, stratspec = arg
    from .. import detsched, engine_exec as E

    rng = random.Random(seed)
    strat = E.make_strategy(stratspec, rng)
    sched = detsched.Scheduler(strat, preempt_files=("uberjob/progress/_simple_progress_observer.py", "uberjob/progress/_html_progress_observer.py"), opcode=False, step_budget=400000,
                                timers="any" if seed % 2 else "idle")  # "any": a sleeping thread may wake while others are still busy (time passes during rendering)
    outputs = []
    final = {}
    thread_exc = []

    def body():
        from uberjob.progress._html_progress_observer import HtmlProgressObserver
        from uberjob.progress import _simple_progress_observer as SPO

        def out_fn(b):
            # emitting takes (virtual) time: notifications may arrive meanwhile
            SPO.time.sleep(rng.choice([0.0, 0.3, 0.7]))
            outputs.append(b.decode())
            sched.point("call", None)

        obs = HtmlProgressObserver(out_fn, initial_update_delay=0.5, min_update_interval=0.5, max_update_interval=3.0)
        for e in seq:
            k = e["e"]
            sc = scopes[e["sc"] - 1] if e["sc"] else None
            key = (e["sec"], sc)
            if k == "enter":
                obs.__enter__()
            elif k == "exit":
                obs.__exit__(None, None, None)
            elif k == "total":
                obs.increment_total(section=e["sec"], scope=sc, amount=e["amt"])
                final.setdefault(key, [0, 0, 0, 0])[3] += e["amt"]
            elif k == "running":
                obs.increment_running(section=e["sec"], scope=sc)
                final[key][2] += 1
            elif k == "completed":
                obs.increment_completed(section=e["sec"], scope=sc)
                final[key][2] -= 1
                final[key][0] += 1
            elif k == "failed":
                obs.increment_failed(section=e["sec"], scope=sc, exception=ValueError("boom"))
                final[key][2] -= 1
                final[key][1] += 1
            elif k == "tick":
                SPO.time.sleep(rng.choice([0.2, 0.6, 1.0]))
            else:
                sched.point("call", None)
        return True

    old_hook = threading.excepthook
    threading.excepthook = lambda a: thread_exc.append(repr(a.exc_value)[:300])
    try:
        out = sched.run(body)
    finally:
        threading.excepthook = old_hook
    fails = []
    res = {"fails": fails, "preemptions": sched.preemptions, "renderings": len(outputs)}
    if out["dead"]:
        res["_poisoned"] = True
    if out["outcome"] == "hang":
        fails.append({"obs": "html(threaded)", "what": "hang", "detail": "update thread and caller deadlocked"})
        return res
    if out["outcome"] == "raised":
        fails.append({"obs": "html(threaded)", "what": "raised", "detail": repr(out["exc"])[:300]})
        return res
    if thread_exc:
        fails.append({"obs": "html(threaded)", "what": "update_thread_raised", "detail": thread_exc[0]})
        return res
    if final:
        if not outputs:
            fails.append({"obs": "html(threaded)", "what": "final_counts_not_shown", "detail": "nothing was ever rendered"})
        else:
            for (sec, sc), (c, f, r, t) in final.items():
                want = progress_string(c, f, r, t)
                shown = html_final_shown(outputs[-1], sec, sc)
                if shown != want:
                    fails.append({"obs": "html(threaded)", "what": "final_counts_not_shown", "detail": f"{sec} {sc}: last rendering shows {shown!r}, final {want!r}"})
                    break
    return res


def run(tier, seed):
    res = common.Result(PROP, tier, seed, "model_checking")
    res.assumptions = [
        "legal notification sequences are those of Progress.tla (the language C15 characterises), sampled by TLC simulation; totals are at least 1 as uberjob announces them",
        "render points execute exactly what the update thread executes when it wakes (_do_render under the lock, then _output); the final rendering is produced by the real update thread at __exit__",
        "time.time as seen by the observers is the model clock; attributed elapsed time is read from the observer's per-scope state",
    ]
    n = 400 if tier == "quick" else 6000
    seqs, r = generate(n, seed)
    res.merge_counts(states=max(1, r.states), transitions=max(1, r.states))
    res.coverage.setdefault("tlc_runs", []).append({"module": "ProgressGen", "mode": f"simulate num={n}", "states_generated": r.states, "sequences": len(seqs)})
    fams = scope_families()
    rng = random.Random(f"c20-{seed}")
    distinct = {json.dumps(s) for s in seqs}
    seqs = [json.loads(s) for s in sorted(distinct)]
    args = []
    for s in seqs:
        if len(s) <= 2:
            continue
        names = list(fams) if tier != "quick" else rng.sample(list(fams), 4)
        for fn in names:
            args.append((s, fn, fams[fn]))
    outs = common.pmap(replay_one, args)
    nfail = 0
    for (s, fn, _sc), fails in zip(args, outs):
        for f in fails:
            nfail += 1
            kind = f["what"]
            cause = "unorderable_scope_values" if "not supported between" in str(f["detail"]) else "other"
            res.add_violation(f"C20:{f['obs']}:{kind}:{cause}", f"{f['obs']} observer, scope family {fn}: {kind}: {f['detail']}",
                              {"family": fn, "sequence": s, "failure": f})
    res.merge_counts(evaluations=len(args) * 3, traces_validated_against_impl=len(args) * 3,
                     distinct_nontrivial=len({(json.dumps(s), fn) for s, fn, _ in args if len(s) > 8}))
    # the real update thread under the deterministic scheduler
    targs = []
    fam = fams["strs"]
    long_seqs = [s for s in seqs if len(s) > 6]
    for i in range(250 if tier == "quick" else 6000):
        sq = rng.choice(long_seqs)
        strat = rng.choice([{"kind": "random", "p": 0.2}, {"kind": "relyield", "q": 0.4}, {"kind": "pct", "depth": 3, "est_steps": 400}])
        targs.append((sq, fam, seed * 1000 + i, strat))
    touts = common.pmap(replay_threaded, targs)
    for (sq, _f, sd, strat), o in zip(targs, touts):
        for f in o["fails"]:
            res.add_violation(f"C20:threaded:{f['what']}", f"HTML observer with its real update thread: {f['what']}: {f['detail']}",
                              {"family": "strs", "sequence": sq, "seed": sd, "strategy": strat, "failure": f, "threaded": True})
    res.merge_counts(evaluations=len(targs), traces_validated_against_impl=len(targs))
    res.coverage["threaded_executions"] = len(targs)
    res.coverage["threaded_with_preemption"] = sum(1 for o in touts if o["preemptions"] > 0)
    res.coverage["threaded_renderings"] = sum(o["renderings"] for o in touts)
    res.coverage["sequences"] = len(seqs)
    res.coverage["scope_families"] = sorted(fams)
    res.coverage["rule"] = ("TLC-generated legal notification sequences (3 abstract scopes per section, totals <= 3, ticks and render points anywhere) x "
                            "scope families (ints, strings, mixed types, different lengths, complex numbers, opaque objects, classes, None, tuples, frozensets) x "
                            "3 observers; non-trivial = distinct (sequence, family) with more than 8 events")
    res.add_samples([{"family": args[0][1], "sequence": [[e["e"], e["sec"], e["sc"], e["amt"]] for e in args[0][0]]}] if args else [])
    return res


def replay(w):
    wit = w["witness"]
    fams = scope_families()
    if wit.get("threaded"):
        fails = replay_threaded((wit["sequence"], fams[wit["family"]], wit["seed"], wit["strategy"]))["fails"]
        print(fails[:5])
        if fails:
            print(f"VIOLATION property={PROP} replay=(reproduced)")
            return 1
        print("not reproduced")
        return 0
    fails = replay_one((wit["sequence"], wit["family"], fams[wit["family"]]))
    print(fails[:5])
    if fails:
        print(f"VIOLATION property={PROP} replay=(reproduced)")
        return 1
    print("not reproduced")
    return 0
