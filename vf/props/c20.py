"""C20 — bundled progress displays render every reachable state, ending with the final one.
Progress.tla is used as a *generator*: TLC (simulation mode) produces legal notification
sequences with clock ticks and render points interleaved anywhere; each sequence is replayed,
for several families of concrete scope tuples, into the real ConsoleProgressObserver,
HtmlProgressObserver and IPythonProgressObserver with the clock replaced by the model's.
Oracles: nothing raises (in particular not inside the update thread, which would silently stop
the display), the last rendering that mentions a scope shows its final counts, and the elapsed
time attributed to scopes adds up to the model's `busy`."""
import contextlib
import io
import json
import os
import random
import re
import sys
import threading

from .. import common, tlc

PROP = "C20"


class Opaque:
    """A hashable, equatable scope value with no ordering."""

    def __init__(self, name):
        self.name = name

    def __repr__(self):
        return f"<{self.name}>"


def scope_families():
    """Concrete user scopes for the abstract scope ids 1..3 (the function name is appended as uberjob does)."""
    o1, o2, o3 = Opaque("o1"), Opaque("o2"), Opaque("o3")
    fam = {
        "ints": [(1,), (2,), (10,)],
        "strs": [("a",), ("b",), ("a.b",)],
        "mixed_types": [(1,), ("a",), (None,)],
        "lengths": [(), ("a",), ("a", "b")],
        "complex": [(1j,), (2j,), (3 + 1j,)],
        "opaque": [(o1,), (o2,), (o3,)],
        "classes": [(int,), (str,), (dict,)],
        "none": [(None,), (None, None), (None, 1)],
        "tuples": [((1, 2),), ((1, "a"),), ((None,),)],
        "bool_int": [(True,), (1.5,), (0,)],
        "frozensets": [(frozenset({1}),), (frozenset({2}),), (frozenset(),)],
        # unorderable values of one type AND a value of another type at the same position
        "unorderable_and_other": [(1j,), (2j,), ("label",)],
        "opaque_and_other": [(o1,), (o2,), (7,)],
    }
    out = {k: [(*s, f"mod.fn{i}") for i, s in enumerate(v)] for k, v in fam.items()}
    # distinct scopes that print alike: the displays must still keep them apart
    out["same_string"] = [(1, "f"), ("1", "f"), ("1, f",)]
    return out


def generate(n, seed, depth=60):
    """Legal notification sequences from TLC (simulation of ProgressGen)."""
    r = tlc.run_tlc("ProgressGen", "ProgressGen.cfg", workers=1, timeout=900, simulate=f"num={n}", depth=depth, seed=seed, deadlock=False)
    seqs = []
    for line in r.out.splitlines():
        if line.startswith('"['):
            try:
                seqs.append(json.loads(json.loads(line)))
            except ValueError:
                pass
    if not seqs:
        raise common.MachineryError(f"TLC produced no sequences:\n{r.out[-2000:]}")
    return seqs, r


class FakeTime:
    """Stands in for the `time` module (and for `time.time`) in the observers' modules."""

    def __init__(self):
        self.now = 1000.0

    def time(self):
        return self.now

    def __getattr__(self, name):
        import time as _t

        return getattr(_t, name)


def observer_classes():
    """The three bundled observer classes, through the public package if it exports them."""
    import uberjob.progress as P

    out = {}
    for key, name, mod in (("console", "ConsoleProgressObserver", "_console_progress_observer"), ("html", "HtmlProgressObserver", "_html_progress_observer"),
                           ("ipython", "IPythonProgressObserver", "_ipython_progress_observer")):
        cls = getattr(P, name, None)
        if cls is None:
            import importlib

            cls = getattr(importlib.import_module(f"uberjob.progress.{mod}"), name)
        out[key] = cls
    return out


def find_state(obs):
    """The observer's counters object (whatever private attribute holds it): the thing with `section_scope_mapping`."""
    for v in vars(obs).values():
        if hasattr(v, "section_scope_mapping"):
            return v
    return None


def sync_available():
    """Can a wake-up of the update thread be performed synchronously (see `wake`)? It needs two private names of
    SimpleProgressObserver; when they are gone (renamed), only the replays with the real thread are done."""
    try:
        obs = observer_classes()["console"](initial_update_delay=10**9, min_update_interval=10**9, max_update_interval=10**9)
        return isinstance(getattr(obs, "_done_event", None), threading.Event) and callable(getattr(obs, "_run_update_thread", None))
    except Exception:
        return False


def progress_string(c, f, r, t):
    all_done = c + f == t
    started = c + f + r > 0
    s = f"{c} / {t}" if (all_done or not started) else f"({c} + {r}) / {t}"
    if f:
        s += f", {f} failed"
    return s


def rows_shown(obsname, outputs, obs, sec, final):
    """Multiset of (scope label, progress string) rows of section `sec` in the last rendering that shows it."""
    import collections
    import html as _h

    shown = None
    if obsname == "console":
        # (one captured chunk may hold several renderings: every section header starts a new block; the last
        # non-empty block of the section counts)
        for out in outputs:
            rows, insec = [], None
            for line in out.splitlines():
                if line in ("stale:", "run:"):
                    if insec == sec and rows:
                        shown = collections.Counter(rows)
                    insec = line[:-1]
                    rows = []
                elif insec == sec and line.startswith("  ") and " | " in line:
                    parts = line.split(" | ", 2)
                    if len(parts) == 3:
                        rows.append((parts[2], parts[0].strip()))
            if insec == sec and rows:
                shown = collections.Counter(rows)
    elif obsname == "html":
        if outputs:
            out = outputs[-1]
            title = "Determining stale value stores" if sec == "stale" else "Running graph"
            i = out.find(title)
            j = out.find("</tbody>", i)
            seg = out[i:j] if i >= 0 else ""
            rows = []
            for m in re.finditer(r'<td class="text-end">([^<]*(?:<span[^>]*>[^<]*</span>)?)</td>\s*<td class="text-end">[^<]*</td>\s*<td>([^<]*)</td>', seg):
                rows.append((_h.unescape(m.group(2)).replace("\u200b", ""), re.sub(r"<span[^>]*>([^<]*)</span>", r"\1", _h.unescape(m.group(1))).strip()))
            shown = collections.Counter(rows)
    else:
        # every label widget the observer holds (in whatever private dict, under whatever key): "progress; elapsed; scope"
        rows = []
        for v in vars(obs).values():
            if isinstance(v, dict):
                for w in v.values():
                    val = getattr(w, "value", None)
                    if type(w).__name__ == "Label" and isinstance(val, str) and val.count(";") >= 2:
                        prog, _el, label = val.split(";", 2)
                        rows.append((label.strip().replace("\u200b", ""), prog.strip()))
        shown = collections.Counter(rows)
    return shown


def final_counts_failure(obsname, outputs, obs, final):
    import collections

    secs = sorted({k[0] for k in final})
    if obsname == "ipython":
        secs = [None]  # the widgets are not attributed to sections here: all rows together
    for sec in secs:
        want = collections.Counter((", ".join(str(x) for x in sc), progress_string(c, f, r, t)) for (s2, sc), (c, f, r, t) in final.items() if sec is None or s2 == sec)
        shown = rows_shown(obsname, outputs, obs, sec, final)
        if shown != want:
            return {"obs": obsname, "what": "final_counts_not_shown", "detail": f"section {sec}: shown {sorted((shown or {}).items())!r:.300}, final {sorted(want.items())!r:.300}"}
    return None


CAL_SCOPES = [("cal", 7), ("cal", 8), ("zz",)]
CAL_SEQ = (
    [{"e": "enter", "sec": "", "sc": 0, "amt": 0}]
    + [{"e": "total", "sec": "stale", "sc": 1, "amt": 2}, {"e": "total", "sec": "stale", "sc": 2, "amt": 1}]
    + [{"e": k, "sec": "stale", "sc": 1, "amt": 0} for k in ("running", "completed", "running", "completed")]
    + [{"e": k, "sec": "stale", "sc": 2, "amt": 0} for k in ("running", "completed")]
    + [{"e": "total", "sec": "run", "sc": 1, "amt": 3}, {"e": "total", "sec": "run", "sc": 3, "amt": 1}]
    + [{"e": k, "sec": "run", "sc": 1, "amt": 0} for k in ("running", "completed", "running", "failed")]
    + [{"e": k, "sec": "run", "sc": 3, "amt": 0} for k in ("running", "tick", "completed")]
    + [{"e": "exit", "sec": "", "sc": 0, "amt": 0}]
)


def calibrate(sync):
    """Does this module's row parser understand what the implementation at hand prints? A fixed, trivial sequence
    (no rendering before the end) is replayed; if the parsed rows are not the expected ones for an observer, the
    display format is not the one the parser was written for, and the final-counts oracle is not applied to that
    observer (its other oracles - nothing raises, nothing hangs, elapsed time adds up - do not read the output)."""
    ok = {}
    for k in ("console", "html", "ipython"):
        try:
            if sync:
                fails = [f for f in replay_one((CAL_SEQ, "cal", CAL_SCOPES)) if f["obs"] == k]
            else:
                fails = replay_threaded((CAL_SEQ, CAL_SCOPES, 1, {"kind": "nonpreemptive"}, k))["fails"]
            ok[k] = not fails
        except Exception:
            ok[k] = False
    return ok


def wake(obs):
    """One wake-up of the observer's update thread, performed synchronously by running the thread's own loop with
    the shutdown event set (exactly one iteration: render if needed, emit), whatever locking it does itself."""
    obs._done_event.set()
    try:
        obs._run_update_thread()
    finally:
        obs._done_event.clear()


def replay_one(arg):
    """Replay one sequence for one scope family into the three observers. Returns a list of failures."""
    seq, famname, scopes = arg[:3]
    fmt_ok = arg[3] if len(arg) > 3 else {"console": True, "html": True, "ipython": True}
    import time as _realtime

    from .. import interpose

    classes = observer_classes()
    ConsoleProgressObserver, HtmlProgressObserver, IPythonProgressObserver = classes["console"], classes["html"], classes["ipython"]
    fails = []
    for obsname in ("console", "html", "ipython"):
        ft = FakeTime()
        swapped = interpose.swap_globals([(_realtime, ft), (_realtime.time, ft.time)], prefixes=("uberjob.progress",))
        outputs = []
        thread_exc = []
        old_hook = threading.excepthook
        threading.excepthook = lambda a: thread_exc.append(repr(a.exc_value)[:300])
        stdout = io.StringIO()
        try:
            kw = dict(initial_update_delay=10**9, min_update_interval=10**9, max_update_interval=10**9)
            if obsname == "console":
                obs = ConsoleProgressObserver(**kw)
            elif obsname == "html":
                obs = HtmlProgressObserver(lambda b: outputs.append(b.decode()), **kw)
            else:
                obs = IPythonProgressObserver(**kw)
            final = {}
            busy = 0.0
            err = None
            with contextlib.redirect_stdout(stdout):
                try:
                    for e in seq:
                        k = e["e"]
                        sc = scopes[e["sc"] - 1] if e["sc"] else None
                        key = (e["sec"], sc)
                        if k == "enter":
                            pass  # no thread here: wake-ups are performed synchronously below (the threaded replay uses the real one)
                        elif k == "exit":
                            wake(obs)  # the final wake-up of the update thread
                        elif k == "total":
                            obs.increment_total(section=e["sec"], scope=sc, amount=e["amt"])
                            final.setdefault(key, [0, 0, 0, 0])[3] += e["amt"]
                        elif k == "running":
                            obs.increment_running(section=e["sec"], scope=sc)
                            final[key][2] += 1
                        elif k == "completed":
                            obs.increment_completed(section=e["sec"], scope=sc)
                            final[key][2] -= 1
                            final[key][0] += 1
                        elif k == "failed":
                            try:
                                raise ValueError("boom")
                            except ValueError as ex:
                                obs.increment_failed(section=e["sec"], scope=sc, exception=ex)
                            final[key][2] -= 1
                            final[key][1] += 1
                        elif k == "tick":
                            if any(v[2] > 0 for v in final.values()):
                                busy += 1.0
                            ft.now += 1.0
                        elif k == "render":
                            wake(obs)
                            if obsname == "console":
                                outputs.append(stdout.getvalue())
                                stdout.seek(0)
                                stdout.truncate()
                except Exception as ex:  # a notification or a rendering raised
                    err = f"{type(ex).__name__}: {ex}"
            if obsname == "console":
                outputs.append(stdout.getvalue())
            if err:
                fails.append({"obs": obsname, "what": "raised", "detail": err[:300]})
                continue
            if thread_exc:
                fails.append({"obs": obsname, "what": "update_thread_raised", "detail": thread_exc[0]})
                continue
            # the last rendering of each section shows the final counts of every scope (scopes that print alike are
            # compared as a multiset of rows)
            if any(e["e"] == "enter" for e in seq) and final and fmt_ok.get(obsname):
                f_ = final_counts_failure(obsname, outputs, obs, final)
                if f_:
                    fails.append(f_)
            # elapsed attributed to scopes adds up to the time during which something was running
            state = find_state(obs)
            total = sum(s.weighted_elapsed for m in state.section_scope_mapping.values() for s in m.values()) if state is not None else busy
            if abs(total - busy) > 1e-6 * max(1.0, busy):
                fails.append({"obs": obsname, "what": "elapsed_does_not_add_up", "detail": f"attributed {total}, busy {busy}"})
        finally:
            interpose.restore(swapped)
            threading.excepthook = old_hook
    return fails


def replay_threaded(arg):
    """The same sequences with the *real update thread* running under the deterministic scheduler, through
    the observers' public interface only (constructor, __enter__, notifications, __exit__): notifications
    come from the calling thread, the observer's thread wakes on virtual timeouts and renders; preemption
    at every line of the progress modules. After __exit__ the last emitted rendering must show the final counts."""
    seq, scopes, seed, stratspec = arg[:4]
    obsname = arg[4] if len(arg) > 4 else "html"
    fmt_ok = arg[5] if len(arg) > 5 else True
    from .. import detsched, engine_exec as E

    rng = random.Random(seed)
    strat = E.make_strategy(stratspec, rng)
    sched = detsched.Scheduler(strat, preempt_files=("uberjob/progress/",), opcode=False, step_budget=400000,
                                timers="any" if seed % 2 else "idle")  # "any": a sleeping thread may wake while others are still busy (time passes during rendering)
    outputs = []
    final = {}
    thread_exc = []
    holder = {}
    stdout = io.StringIO()
    label = f"{obsname}(threaded)"

    def body():
        vsleep = sched.ns.time_module.sleep
        cls = observer_classes()[obsname]
        # (update intervals shorter than the shortest tick: the display is refreshed during every pause of the caller)
        d = 0.1 if (stratspec.get("kind") == "preempt" or seed % 3 == 0) else 0.5
        kw = dict(initial_update_delay=d, min_update_interval=d, max_update_interval=3.0)
        if obsname == "html":
            def out_fn(b):
                # emitting takes (virtual) time: notifications may arrive meanwhile
                vsleep(rng.choice([0.0, 0.3, 0.7]))
                outputs.append(b.decode())
                sched.point("call", None)

            obs = cls(out_fn, **kw)
        else:
            obs = cls(**kw)
        holder["obs"] = obs

        def flush():
            if obsname == "console" and stdout.getvalue():
                outputs.append(stdout.getvalue())
                stdout.seek(0)
                stdout.truncate()

        for e in seq:
            k = e["e"]
            sc = scopes[e["sc"] - 1] if e["sc"] else None
            key = (e["sec"], sc)
            if k == "enter":
                obs.__enter__()
                vsleep(0.001)  # the update thread gets going (its first wait starts now, not at the caller's first pause)
            elif k == "exit":
                obs.__exit__(None, None, None)
            elif k == "total":
                obs.increment_total(section=e["sec"], scope=sc, amount=e["amt"])
                final.setdefault(key, [0, 0, 0, 0])[3] += e["amt"]
            elif k == "running":
                obs.increment_running(section=e["sec"], scope=sc)
                final[key][2] += 1
            elif k == "completed":
                obs.increment_completed(section=e["sec"], scope=sc)
                final[key][2] -= 1
                final[key][0] += 1
            elif k == "failed":
                obs.increment_failed(section=e["sec"], scope=sc, exception=ValueError("boom"))
                final[key][2] -= 1
                final[key][1] += 1
            elif k == "tick":
                vsleep(rng.choice([0.2, 0.6, 1.0]))
                flush()
            else:
                sched.point("call", None)
        flush()
        return True

    old_hook = threading.excepthook
    threading.excepthook = lambda a: thread_exc.append(repr(a.exc_value)[:300])
    try:
        with contextlib.redirect_stdout(stdout):
            out = sched.run(body)
    finally:
        threading.excepthook = old_hook
    fails = []
    res = {"fails": fails, "preemptions": sched.preemptions, "renderings": len(outputs), "steps": out.get("steps", 0),
           "sched_log": list(sched.sched_log) if stratspec.get("kind") == "preempt" and not stratspec.get("preempts") else None}
    if out["dead"]:
        res["_poisoned"] = True
    if out["outcome"] == "hang":
        fails.append({"obs": label, "what": "hang", "detail": "update thread and caller deadlocked"})
        return res
    if out["outcome"] == "raised":
        fails.append({"obs": label, "what": "raised", "detail": repr(out["exc"])[:300]})
        return res
    if thread_exc:
        fails.append({"obs": label, "what": "update_thread_raised", "detail": thread_exc[0]})
        return res
    if final and fmt_ok and any(e["e"] == "exit" for e in seq):
        if not outputs and obsname != "ipython":
            fails.append({"obs": label, "what": "final_counts_not_shown", "detail": "nothing was ever rendered"})
        else:
            f_ = final_counts_failure(obsname, outputs, holder.get("obs"), final)
            if f_:
                f_["obs"] = label
                fails.append(f_)
    return res


def replay_threaded_enum(arg):
    """Bounded-preemption enumeration (b = 1) for one sequence: a baseline in which threads only switch when they block,
    then one execution for every step at which the update thread was running, with a switch to the calling thread
    forced at that step (time may pass while the update thread is busy rendering: timers = "any"). This is the
    systematic search for 'the caller changes the counters while the display is being produced'."""
    seq, scopes, seed, kind, fmt_ok, limit = arg
    seed = seed | 1  # odd seeds run with timers="any"
    base = replay_threaded((seq, scopes, seed, {"kind": "preempt", "preempts": []}, kind, fmt_ok))
    outs = [({"kind": "preempt", "preempts": []}, base)]
    if base.get("_poisoned") or not base.get("sched_log"):
        return {"runs": outs, "_poisoned": base.get("_poisoned", False)}
    steps = []
    log = base["sched_log"] + [(base["steps"], None, None)]
    for (s0, _f, to), (s1, _f2, _t2) in zip(log, log[1:]):
        if to is not None and to != 0:
            steps.extend(range(s0 + 1, s1 + 1))
    if limit and len(steps) > limit:
        steps = sorted(random.Random(seed).sample(steps, limit))
    for st in steps:
        spec = {"kind": "preempt", "preempts": [[st, 0]]}
        o = replay_threaded((seq, scopes, seed, spec, kind, fmt_ok))
        outs.append((spec, o))
        if o.get("_poisoned"):
            return {"runs": outs, "_poisoned": True}
    return {"runs": outs}


def run(tier, seed):
    res = common.Result(PROP, tier, seed, "model_checking")
    res.assumptions = [
        "legal notification sequences are those of Progress.tla (the language C15 characterises), sampled by TLC simulation; totals are at least 1 as uberjob announces them",
        "render points execute exactly what the update thread executes when it wakes (_do_render under the lock, then _output); the final rendering is produced by the real update thread at __exit__",
        "time.time as seen by the observers is the model clock; attributed elapsed time is read from the observer's per-scope state",
    ]
    n = 400 if tier == "quick" else 6000
    seqs, r = generate(n, seed)
    res.merge_counts(states=max(1, r.states), transitions=max(1, r.states))
    res.coverage.setdefault("tlc_runs", []).append({"module": "ProgressGen", "mode": f"simulate num={n}", "states_generated": r.states, "sequences": len(seqs)})
    fams = scope_families()
    rng = random.Random(f"c20-{seed}")
    distinct = {json.dumps(s) for s in seqs}
    seqs = [json.loads(s) for s in sorted(distinct)]
    sync = sync_available()
    fmt = calibrate(sync)
    res.coverage["synchronous_replay"] = sync
    res.coverage["final_counts_parser_valid"] = fmt
    if not sync or not all(fmt.values()):
        res.coverage["degraded"] = ("the implementation at hand does not have the private names / the display format this harness was written for: "
                                    + ("synchronous wake-ups are replaced by replays with the real update thread; " if not sync else "")
                                    + "".join(f"the final-counts oracle is not applied to the {k} observer; " for k, v in fmt.items() if not v))
    args = []
    for s in seqs:
        if len(s) <= 2 or not sync:
            continue
        names = list(fams) if tier != "quick" else rng.sample(list(fams), 4)
        for fn in names:
            args.append((s, fn, fams[fn], fmt))
    outs = common.pmap(replay_one, args)
    nfail = 0
    for (s, fn, _sc, _fm), fails in zip(args, outs):
        for f in fails:
            nfail += 1
            kind = f["what"]
            cause = "unorderable_scope_values" if "not supported between" in str(f["detail"]) else "other"
            res.add_violation(f"C20:{f['obs']}:{kind}:{cause}", f"{f['obs']} observer, scope family {fn}: {kind}: {f['detail']}",
                              {"family": fn, "sequence": s, "failure": f})
    res.merge_counts(evaluations=len(args) * 3, traces_validated_against_impl=len(args) * 3,
                     distinct_nontrivial=len({(json.dumps(s), fn) for s, fn, _, _f in args if len(s) > 8}))
    # the real update thread under the deterministic scheduler
    targs = []
    long_seqs = [s for s in seqs if len(s) > 6]
    nthreaded = (600 if tier == "quick" else 8000) * (1 if sync else 4)
    famnames = sorted(fams)
    for i in range(nthreaded):
        sq = rng.choice(long_seqs)
        strat = rng.choice([{"kind": "random", "p": 0.2}, {"kind": "relyield", "q": 0.4}, {"kind": "pct", "depth": 3, "est_steps": 400}])
        kind = "html" if i % 2 == 0 else ("console" if i % 4 == 1 else "ipython")
        fname = "strs" if (sync and i % 2 == 0) else rng.choice(famnames)
        targs.append((sq, fams[fname], seed * 1000 + i, strat, kind, fmt.get(kind, False), fname))
    touts = common.pmap(replay_threaded, targs)
    for (sq, _f, sd, strat, kind, _fm, fname), o in zip(targs, touts):
        for f in o["fails"]:
            cause = "unorderable_scope_values" if "not supported between" in str(f["detail"]) else "other"
            res.add_violation(f"C20:threaded:{kind}:{f['what']}:{cause}", f"{kind} observer with its real update thread, scope family {fname}: {f['what']}: {f['detail']}",
                              {"family": fname, "sequence": sq, "seed": sd, "strategy": strat, "failure": f, "threaded": True, "observer": kind})
    # ... and systematically: every single forced switch from the rendering thread to the caller, on a few sequences
    eargs = []
    def late_total(sq):
        # after time has passed, a new scope is announced in a section that already shows several scopes (or a section
        # is announced for the first time): the display may be in the middle of rendering that section at that moment
        seen, scopes = False, {}
        for e in sq:
            if e["e"] in ("tick", "render"):
                seen = True
            elif e["e"] == "total":
                have = scopes.setdefault(e["sec"], set())
                if seen and e["sc"] not in have and len(have) >= 2:
                    return True
                have.add(e["sc"])
        return False

    both = [s for s in long_seqs if late_total(s)] or long_seqs
    def with_pauses(sq):
        # time may pass anywhere (Tick is always enabled in Progress.tla): a pause before every announcement, so that
        # the display is being refreshed when the next scope appears
        out = []
        for e in sq:
            if e["e"] == "total" and out and out[-1]["e"] != "enter":
                out.append({"e": "tick", "sec": "", "sc": 0, "amt": 0})
            out.append(e)
        return out

    for i in range(16 if tier == "quick" else 96):
        sq = with_pauses(rng.choice(both))
        kind = ("html", "html", "console", "ipython")[i % 4]
        eargs.append((sq, fams["strs"], seed * 1000 + 2 * i + 1, kind, fmt.get(kind, False), 120 if tier == "quick" else 1000))
    eouts = common.pmap(replay_threaded_enum, eargs)
    nenum = 0
    for (sq, _sc, sd, kind, _fm, _lim), eo in zip(eargs, eouts):
        for spec, o in eo["runs"]:
            nenum += 1
            for f in o["fails"]:
                cause = "unorderable_scope_values" if "not supported between" in str(f["detail"]) else "other"
                res.add_violation(f"C20:threaded:{kind}:{f['what']}:{cause}", f"{kind} observer with its real update thread (one forced switch): {f['what']}: {f['detail']}",
                                  {"family": "strs", "sequence": sq, "seed": sd | 1, "strategy": spec, "failure": f, "threaded": True, "observer": kind})
    res.coverage["threaded_enumerated_executions"] = nenum
    res.merge_counts(evaluations=len(targs) + nenum, traces_validated_against_impl=len(targs) + nenum)
    res.coverage["threaded_executions"] = len(targs)
    res.coverage["threaded_with_preemption"] = sum(1 for o in touts if o["preemptions"] > 0)
    res.coverage["threaded_renderings"] = sum(o["renderings"] for o in touts)
    res.coverage["sequences"] = len(seqs)
    res.coverage["scope_families"] = sorted(fams)
    res.coverage["rule"] = ("TLC-generated legal notification sequences (3 abstract scopes per section, totals <= 3, ticks and render points anywhere) x "
                            "scope families (ints, strings, mixed types, different lengths, complex numbers, opaque objects, classes, None, tuples, frozensets) x "
                            "3 observers; non-trivial = distinct (sequence, family) with more than 8 events")
    res.add_samples([{"family": args[0][1], "sequence": [[e["e"], e["sec"], e["sc"], e["amt"]] for e in args[0][0]]}] if args else [])
    return res


def replay(w):
    wit = w["witness"]
    fams = scope_families()
    if wit.get("threaded"):
        kind = wit.get("observer", "html")
        fails = replay_threaded((wit["sequence"], fams[wit["family"]], wit["seed"], wit["strategy"], kind, calibrate(sync_available()).get(kind, False)))["fails"]
        print(fails[:5])
        if fails:
            print(f"VIOLATION property={PROP} replay=(reproduced)")
            return 1
        print("not reproduced")
        return 0
    fails = replay_one((wit["sequence"], wit["family"], fams[wit["family"]], calibrate(True)))
    print(fails[:5])
    if fails:
        print(f"VIOLATION property={PROP} replay=(reproduced)")
        return 1
    print("not reproduced")
    return 0
