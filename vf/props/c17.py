"""C17 — Ctrl-C during a run stops new work, waits for in-flight calls and cleans up."""
from .. import common, engine_campaign as C
from . import engine_common as EC

PROP = "C17"


def run(tier, seed):
    res = common.Result(PROP, tier, seed, "model_checking")
    res.assumptions = list(EC.ASSUMPTIONS) + [
        "KeyboardInterrupt is injected where CPython delivers it to a thread blocked in or entering a threading primitive "
        "(lock acquire, Condition.wait, Thread.start/join), except inside Condition.wait's internal re-acquire (stdlib fragility)",
        "reading of 'no further call is started': once the calling thread has set the engine's stop flag (observed as the first "
        "lock it takes after the interrupt), each worker that is neither executing a call nor blocked inside queue.get starts "
        "at most one more call (the dispatch it had already committed to); workers inside queue.get start none",
        "Thread.ident is None until Thread.start returned or the new thread ran (CPython): an interrupt inside start() leaves "
        "a worker that nobody can join; it only has to exit eventually",
    ]
    if tier == "quick":
        variants = [dict(N=3, maxw=2, configs="ConfigsNoFail", intr=True), dict(N=2, maxw=2, configs="ConfigsFull", intr=True, spawn=True)]
        n, opfrac = 2500, 0.1
    else:
        variants = [dict(N=3, maxw=2, configs="ConfigsFewFail", intr=True, spawn=True), dict(N=3, maxw=3, configs="ConfigsNoFail", intr=True),
                    dict(N=4, maxw=2, configs="ConfigsNoFail", intr=True, spawn=True)]
        n, opfrac = 80000, 0.25
    runs = EC.run_engine_mc(res, variants)
    EC.mc_verdict(res, PROP, runs, ["Terminates", "CleanAtEnd", "RefinesRunAbs"])
    tl = [C.gen_tasks("interrupt", n, seed + 500, opcode_frac=opfrac)]
    ft, fr, findings = EC.campaign(res, PROP, tl,
                "executions in which the scheduler raises KeyboardInterrupt in the calling thread during the k-th call "
                "(after d further scheduler steps) or at the j-th primitive it passes while a call is executing "
                "(including inside Thread.start), then lets it run to its first blocking point; "
                "non-trivial = the interrupt was delivered while at least one call was executing")
    inprem = 0
    for t, r in zip(ft, fr):
        running = 0
        for e in r["events"]:
            if e["ev"] == "start":
                running += 1
            elif e["ev"] == "end":
                running -= 1
            elif e["ev"] == "interrupt":
                if running > 0:
                    inprem += 1
                break
    res.coverage["distinct_nontrivial"] = inprem
    res.coverage["interrupts_delivered"] = sum(1 for r in fr if r.get("interrupts"))
    res.coverage["interrupts_while_call_executing"] = inprem
    return res


def replay(w):
    return EC.replay(PROP, w)
