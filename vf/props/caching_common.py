"""Shared driver for the registry / caching properties C03 C05 C08 C09 C13 C14:
(1) TLC: Caching.tla is model-checked on small role-assigned scenarios (every history of runs,
    cut-short runs, source updates, deletions within a clock bound);
(2) histories executed on the real library (vf/cexec.py) are validated, event by event, by the
    trace monitor CachingTrace.tla; a broken clause that speaks about this property is a
    violation, with the history as replayable witness."""
import json
import os
import random
import shutil
import time

from .. import cexec as CE, common, cscen as CS, tlc

CLAUSE_PROP = {
    # C05: exactly the out-of-date values are rebuilt, once; reads at most once and only if consumed
    "call_in_plan": "C05", "call_once": "C05", "read_in_plan": "C05", "read_once": "C05", "read_consumed": "C05",
    "write_in_plan": "C05", "write_once": "C05", "write_is_stale": "C05", "end_all_ops_done": "C05",
    "inv_StaleIsOutOfDate": "C05", "inv_ExactlyStaleRebuilt": "C05", "inv_SecondRunNoOp": "C05",
    # C09: write, then read back, then use
    "call_plan_preds_done": "C09", "read_plan_preds_done": "C09", "write_plan_preds_done": "C09",
    "c09_arg_read_back": "C09", "c09_arg_written_first": "C09", "c09_dep_written_first": "C09",
    "c09_read_after_write": "C09", "c09_depsrc_after_deps": "C09", "c09_depsrc_after_stored_deps": "C09", "c09_upstream_written_first": "C09",
    "call_value_from_read_args": "C09", "inv_DownstreamRebuilt": "C09",
    # C03: same outputs and stored values as from scratch
    "end_output_value": "C03", "inv_SameAsFromScratch": "C03", "write_value_is_result": "C03",
    "unexpected_error": "C03",
    # C08: cut short at any point
    "inv_LooksFreshImpliesCorrect": "C08", "inv_CompletedWritesKept": "C08",
    # C13 / C14
    "c13_plan_and_registry_unchanged": "C13",
    "c14_nothing_executes_in_dry_run": "C14", "c14_dry_plan_ops": "C14", "c14_dry_plan_order": "C14",
    "c14_dry_is_dry": "C14", "c14_dry_plan_transformed": "C14", "c14_output_node_in_returned_plan": "C14", "c14_dry_run_executed_nothing": "C14", "c14_dry_run_left_stores": "C14",
    # engine-level consequences seen from here
    "end_nothing_running": "C07", "too_many_inflight": "C10", "threads_leaked": "C07",
    "too_many_mtime_queries_inflight": "C10", "attempts_exceed_retry": "C10", "eventual_success_not_honoured": "C10",
    "reported_exception_not_last_attempt": "C10",
}
# clauses that only fail when the harness and the monitor disagree about bookkeeping
MACHINERY_CLAUSES = {
    "upd_is_pure_source", "upd_idle", "del_registered", "del_idle", "begin_idle", "mtime_consistent",
    "call_in_run", "read_in_run", "write_in_run", "end_in_run", "abort_in_run", "end_of_begun",
    "read_returns_content", "write_rank", "side_value", "unknown_event",
}
# within the execution of a dry-run plan (C14), every run-level clause speaks about C14
RUN_CLAUSES_AS_C14 = {c for c, p in CLAUSE_PROP.items() if p in ("C05", "C09", "C03") and not c.startswith("inv_St")}

INVARIANTS = ["TypeOK", "SameAsFromScratch", "StaleIsOutOfDate", "ExactlyStaleRebuilt", "SecondRunNoOp",
              "LooksFreshImpliesCorrect", "CompletedWritesKept", "PlanOrderSufficient", "DownstreamRebuilt", "PlanClosed"]

ASSUMPTIONS = [
    "TLC explores Caching.tla exhaustively only for the listed small scenarios and clock bound",
    "harness stores return what was last written and their modified times strictly increase (logical clock); call functions are deterministic term constructors",
    "a side-writing call's only successor is its dependent source; registered nodes are calls (not literals)",
    "every effect and its log record happen under one lock, so the recorded order is a linearization of the real execution",
    "histories in which a pure source is missing are outside the premise of SecondRunNoOp / CompletedWritesKept (no run can repair them)",
]


# --------------------------------------------------------------------------------------
# (1) model checking


def mc_cfg(maxclock, invariants=INVARIANTS):
    return "\n".join(
        ["CONSTANTS", "  Configs <- GenConfigs", f"  MaxClock = {maxclock}", "SPECIFICATION Spec", "CONSTRAINT ClockBound"]
        + [f"INVARIANT {i}" for i in invariants]
        + ["CHECK_DEADLOCK FALSE", ""]
    )


def few_outs(s):
    o = CS.default_outs(s)
    return [o[0], o[-1]] + o[1:2]


def run_mc(res, scns, maxclock, timeout=5400, label="", outs_of=few_outs):
    with common.scratch("vf-mcc-") as d:
        for f in os.listdir(common.SPEC):
            if f.endswith(".tla"):
                shutil.copy(os.path.join(common.SPEC, f), d)
        with open(os.path.join(d, "CachingGen.tla"), "w") as f:
            f.write(CS.gen_module(scns, outs_of))
        cfgp = os.path.join(d, "mc.cfg")
        with open(cfgp, "w") as f:
            f.write(mc_cfg(maxclock))
        r = tlc.run_tlc("MC_Caching", cfgp, timeout=timeout, specdir=d, coverage=False)
    res.merge_counts(states=r.distinct, transitions=r.states)
    res.coverage.setdefault("tlc_runs", []).append(
        {"module": "MC_Caching", "scenarios": len(scns), "what": label, "MaxClock": maxclock, "distinct_states": r.distinct,
         "states_generated": r.states, "depth": r.depth, "ok": r.ok, "violated": r.violated, "wall_s": round(r.wall, 1)}
    )
    if not r.ok:
        # a counterexample on the specification alone is not a violation of the code (DESIGN 5.2):
        # specification and code disagree, or the design is broken. Never silently passed.
        raise common.MachineryError(
            f"TLC did not verify Caching.tla ({label}): violated={r.violated} rc={getattr(r, 'rc', None)}\n{r.trace[:4000] or r.out[-2500:]}"
        )
    return r


def mc_scenarios(tier, seed, n_quick=14, n_thorough=48):
    rng = random.Random(f"mcc-{seed}")
    pool = list(CS.small_scenarios(3))
    rng.shuffle(pool)
    fixed = [
        # chain of stored values behind a source; unstored middle; dependent source with a consumer
        {"N": 3, "kind": ["call"] * 3, "args": [[], [1], [2]], "deps": [[], [], []], "reg": ["src", "stored", "stored"],
         "wof": [0, 0, 0], "side": [0, 0, 0], "nkw": [0, 0, 0], "norm": True},
        {"N": 4, "kind": ["call"] * 4, "args": [[], [1], [2], [3]], "deps": [[], [], [], []], "reg": ["src", "stored", "none", "stored"],
         "wof": [0, 0, 0, 0], "side": [0, 0, 0, 0], "nkw": [0] * 4, "norm": False},
        {"N": 4, "kind": ["call"] * 4, "args": [[], [1], [], [3]], "deps": [[], [], [2], []], "reg": ["src", "none", "src", "stored"],
         "wof": [0, 0, 2, 0], "side": [0, 3, 0, 0], "nkw": [0] * 4, "norm": False},
    ]
    fixed.append({"N": 3, "kind": ["call"] * 3, "args": [[], [1], []], "deps": [[], [], [2]], "reg": ["src", "stored", "src"],
                  "wof": [0, 0, 2], "side": [0, 3, 0], "nkw": [0, 0, 0], "norm": False, "consistent": False})   # the producer of a dependent source is itself stored
    k = n_quick if tier == "quick" else n_thorough
    scns = pool[:k]
    for s in scns:
        s["norm"] = rng.random() < 0.5
    return ([fixed[0], fixed[3]] if tier == "quick" else fixed), scns


# --------------------------------------------------------------------------------------
# (2) histories on the real code


def _exec(task):
    return CE.run_history(task)


def gen_tasks(count, seed, *, nmin=3, nmax=8, length=6, norm=None, p_fault=0.35, p_dry=0.12, p_render=0.08, maxW=4, small_frac=0.25, file_frac=0.12):
    rng = random.Random(f"caching-{seed}")
    small = None
    tasks = []
    special = CS.special_scenarios()
    for i in range(count):
        if rng.random() < 0.06:
            scn = dict(rng.choice(special))
            scn["norm"] = rng.random() < 0.5 if norm is None else norm
            scn["reg_seed"] = rng.choice([0, rng.randrange(1, 1000)])
        elif rng.random() < small_frac:
            if small is None:
                small = list(CS.small_scenarios(3))
            scn = dict(rng.choice(small))
            scn["norm"] = rng.random() < 0.5 if norm is None else norm
        else:
            scn = CS.random_scenario(rng, nmin, nmax, norm=norm)
        steps = CE.gen_history(rng, scn, rng.randint(2, length), p_fault=p_fault, p_dry=p_dry, p_render=p_render, maxW=maxW)
        tasks.append({"scn": scn, "steps": steps, "seed": rng.randrange(1 << 30)})
        trng = random.Random(f"tz-{seed}-{i}")
        if trng.random() < 0.5:
            # the same history with its instants written in mixed representations in some process time zone
            tasks[-1]["tzmix"] = CE.gen_tzmix(trng, scn["N"])
        if trng.random() < file_frac:
            # ... and with the library's own file stores behind (most of) the value stores: real files, real instants
            tasks[-1]["files"] = CE.gen_files(trng, scn)
    return tasks


def cut_enumeration_tasks(count, seed, nmax=6):
    """C08: for a base history ending in a run, the same history with that run cut at *every* operation
    index, before and after the operation took effect, as an exception and as process death."""
    rng = random.Random(f"cuts-{seed}")
    tasks = []
    for _ in range(count):
        scn = CS.random_scenario(rng, 3, nmax)
        base = CE.gen_history(rng, scn, rng.randint(1, 3), p_fault=0.0, p_dry=0.0, p_render=0.0)
        base = base[:-2]
        outs = CS.default_outs(scn)
        run = {"op": "run", "fresh": rng.choice(["none", "now"]), "out": list(rng.choice(outs)), "W": rng.choice([1, 1, 2, 3]),
               "sched": rng.choice([None, "random"]), "maxerr": rng.choice([0, 1, None]), "single_as_node": False, "fresh_r": rng.random()}
        pre = [{"op": "upd", "n": n} for n in range(1, scn["N"] + 1) if scn["reg"][n - 1] == "src" and not scn["wof"][n - 1] and rng.random() < 0.5]
        tail = [{"op": "run", "fresh": "none", "out": list(rng.choice(outs)), "W": 1, "sched": None, "maxerr": 0, "single_as_node": False, "fresh_r": 0},
                {"op": "run", "fresh": "none", "out": [], "W": 1, "sched": None, "maxerr": 0, "single_as_node": False, "fresh_r": 0}]
        for k in range(1, 3 * scn["N"] + 3):
            for when in ("before", "after"):
                for mode in ("raise", "dead"):
                    r = dict(run)
                    r["fault"] = {"at": k, "when": when, "mode": mode}
                    tasks.append({"scn": scn, "steps": base + pre + [r] + tail, "seed": rng.randrange(1 << 30)})
    return tasks


def validate(traces, nproc=None):
    """Validate traces with TLC in parallel batches. Returns (rejected: {index: [(l, clause)]}, states)."""
    if not traces:
        return {}, 0
    nproc = nproc or common.NPROC
    per = max(1, min(120, (len(traces) + nproc - 1) // nproc))
    batches = [(i, traces[i: i + per]) for i in range(0, len(traces), per)]
    outs = common.pmap(_validate_batch, batches, nproc=nproc)
    rej = {}
    states = 0
    for (i0, _b), (r, st) in zip(batches, outs):
        states += st
        for k, v in r.items():
            rej[i0 + int(k) - 1] = [tuple(x) for x in v]
    return rej, states


def _validate_batch(arg):
    _i0, batch = arg
    _acc, rej, r = tlc.validate_traces("CachingTrace", "CachingTrace.cfg", batch, timeout=5400)
    return {str(k): v for k, v in rej.items()}, (r.distinct if r else 0)


def classify(task, trace, clauses):
    """[(event index, clause)] of one rejected history -> {property: [clause...]}. Only the clauses of
    the earliest broken event are primary; later ones may be consequences of the forced effects."""
    out = {}
    ev = trace["events"]
    first_l = min(l for l, _ in clauses)
    first_is_machinery = all(c in MACHINERY_CLAUSES for l, c in clauses if l == first_l)
    # is event l inside the execution of a dry-run plan?
    in_dry_exec = {}
    flag = False
    for i, e in enumerate(ev, 1):
        if e["e"] == "dryend":
            flag = True
        elif e["e"] in ("begin",):
            flag = False
        in_dry_exec[i] = flag
        if e["e"] == "rend":
            flag = False
    for l, c in clauses:
        if c in MACHINERY_CLAUSES:
            out.setdefault("machinery" if first_is_machinery else "consequence", []).append(c)
            continue
        p = CLAUSE_PROP.get(c)
        if p is None:
            out.setdefault("machinery", []).append("unmapped:" + c)
            continue
        if in_dry_exec.get(min(l, len(ev)), False) and (c in RUN_CLAUSES_AS_C14 or c.startswith("inv_")):
            p = "C14"
        out.setdefault(p, []).append(c if l == first_l else c + "(secondary)")
        if c == "end_output_value" and task["scn"].get("norm") and l == first_l:
            # with a normalising store the wrong output is the in-memory result instead of what read returned: C09's last clause
            out.setdefault("C09", []).append(c)
    return out


def campaign(res, prop, tasks, rule):
    t0 = time.time()
    outs = common.pmap(_exec, tasks)
    traces = [o["trace"] for o in outs]
    infos = [o["info"] for o in outs]
    t1 = time.time()
    rej, states = validate(traces)
    t2 = time.time()
    res.coverage["exec_wall_s"] = round(res.coverage.get("exec_wall_s", 0) + t1 - t0, 1)
    res.coverage["validate_wall_s"] = round(res.coverage.get("validate_wall_s", 0) + t2 - t1, 1)
    findings = []
    for idx, clauses in sorted(rej.items()):
        findings.append({"task": tasks[idx], "clauses": clauses, "by_prop": classify(tasks[idx], traces[idx], clauses)})
    # harness-level observations that are not monitor clauses
    for idx, info in enumerate(infos):
        extra = {}
        if info["unexpected"]:
            extra.setdefault("C03", []).append("unexpected_error")
        if info["max_inflight_over"]:
            extra.setdefault("C10", []).append("too_many_inflight")
        for c, _what in info.get("c10", []):
            extra.setdefault("C10", []).append(c)
        if info["threads_leaked"]:
            extra.setdefault("C07", []).append("threads_leaked")
        if extra:
            findings.append({"task": tasks[idx], "clauses": [(0, c) for cs in extra.values() for c in cs], "by_prop": extra, "info": info})
    nontrivial = set()
    for t, tr, info in zip(tasks, traces, infos):
        if info["runs"] + info["dry"] >= 2 and any(e["e"] == "write" for e in tr["events"]):
            nontrivial.add(common.stable_hash([t["scn"], t["steps"]]))
    res.merge_counts(
        states=states, transitions=states, traces_validated_against_impl=len(traces), evaluations=len(traces),
        distinct_nontrivial=len(nontrivial),
        runs=sum(i["runs"] for i in infos), successful_runs=sum(i["ok_runs"] for i in infos),
        failed_runs=sum(i["failed_runs"] for i in infos), cuts_hit=sum(i["cuts_hit"] for i in infos),
        dry_runs=sum(i["dry"] for i in infos), renders=sum(i["renders"] for i in infos), retry_runs=sum(i.get("retry_runs", 0) for i in infos),
        events=sum(len(t["events"]) for t in traces),
    )
    res.coverage["traces_accepted"] = res.coverage.get("traces_accepted", 0) + len(traces) - len(rej)
    res.coverage["rule"] = rule
    other = {}
    for f in findings:
        for p, clauses in f["by_prop"].items():
            if p == prop:
                primary = [c for c in clauses if not c.endswith("(secondary)")] or clauses
                c0 = primary[0].replace("(secondary)", "")
                res.add_violation(f"{prop}:caching:{c0}", f"Caching clause {c0} broken by a history executed on the real library",
                                  {"task": f["task"], "clauses": f["clauses"][:12], "info": f.get("info")})
            else:
                d = other.setdefault(p, {})
                for c in clauses:
                    d[c] = d.get(c, 0) + 1
    if other:
        cur = res.coverage.setdefault("clauses_broken_for_other_properties", {})
        for p, d in other.items():
            for c, k in d.items():
                cur.setdefault(p, {})
                cur[p][c] = cur[p].get(c, 0) + k
        if "machinery" in other:
            bad = [f for f in findings if "machinery" in f["by_prop"]][0]
            raise common.MachineryError(
                f"trace monitor reported harness-level inconsistencies: {other['machinery']}\nfirst: {json.dumps(bad['task'])[:1500]}\n{bad['clauses'][:10]}")
    samples = []
    for t, tr in list(zip(tasks, traces))[:2]:
        samples.append({"scenario": t["scn"], "steps": t["steps"][:6],
                        "events": [[e["e"], e["n"]] for e in tr["events"]][:40]})
    res.add_samples(samples, cap=3)
    return findings


def replay(prop, w):
    task = w["witness"]["task"]
    out = CE.run_history(task)
    rej, _ = validate([out["trace"]], nproc=1)
    by = classify(task, out["trace"], rej[0]) if rej else {}
    if out["info"]["unexpected"]:
        by.setdefault("C03", []).append("unexpected_error")
    for c, _what in out["info"].get("c10", []):
        by.setdefault("C10", []).append(c)
    print(json.dumps({"clauses": rej.get(0, [])[:20], "by_prop": by, "info": out["info"]}, default=repr)[:3000])
    if prop in by:
        print(f"VIOLATION property={prop} replay=(reproduced)")
        return 1
    print("not reproduced")
    return 0
