"""C11 — see DESIGN.md section 6.C11; shared machinery in fs_common.py (and c12_values.py)."""
from .. import common
from . import fs_common as F

PROP = "C11"


def run(tier, seed):
    res = common.Result(PROP, tier, seed, "fault_enumeration")
    res.assumptions = list(F.ASSUMPTIONS)
    r = F.run_mc(res, cleanup=True, maxwrites=3 if tier == "quick" else 5)
    if not r.ok:
        raise common.MachineryError(f"TLC did not verify FileStore.tla: {r.violated}\n{r.trace[:3000] or r.out[-2000:]}")
    # non-vacuity: the protocol as it was before the fix: commit (rename outside the try block) must be rejected by TLC
    r0 = F.run_mc(res, cleanup=False, maxwrites=2)
    res.coverage["spec_mutant_rejected"] = {"CleanupOnReplaceFailure=FALSE": r0.violated}
    if r0.ok:
        raise common.MachineryError("FileStore.tla accepts a protocol that leaves the staging file behind: NoStagingAfterException is vacuous")
    F.fault_campaign(res, PROP, tier)
    res.coverage["rule"] = ("for each of the 5 stores and staged_write(text/binary) / staged_write_path, str and pathlib paths, small and large values: "
                            "the write with an OSError and a KeyboardInterrupt injected at every file operation k (open, each write, close, rename), "
                            "process death before every operation k and after the last, and a value whose serialisation fails part-way; "
                            "non-trivial = a distinct (writer, path kind, size, fault kind, k)")
    return res


def replay(w):
    return F.replay(PROP, w)
