"""C06 — nothing downstream of a failed call runs; the raised error names a real failure."""
from .. import common, engine_campaign as C
from . import engine_common as EC

PROP = "C06"


def run(tier, seed):
    res = common.Result(PROP, tier, seed, "model_checking")
    res.assumptions = list(EC.ASSUMPTIONS)
    if tier == "quick":
        variants = [dict(N=3, maxw=2, configs="ConfigsFull")]
        n, n_small, opfrac = 1800, 1, 0.2
    else:
        variants = [dict(N=3, maxw=3, configs="ConfigsFull"), dict(N=4, maxw=2, configs="ConfigsFewFail"),
                    dict(N=5, maxw=4, configs="ConfigsRef")]
        n, n_small, opfrac = 60000, 8, 0.3
    runs = EC.run_engine_mc(res, variants)
    EC.mc_verdict(res, PROP, runs, ["ReportedFailed", "RefinesRunAbs"])
    tl = [C.gen_tasks("fail", n, seed + 200, opcode_frac=opfrac, nmax=8 if tier == "quick" else 12)]
    for k in range(n_small):
        tl.append(C.small_shape_tasks(3, seed + 60 + k, fail=True))
    tl.append(C.bundled_observer_tasks(seed, 150 if tier == "quick" else 5000, "fail"))
    tl.append(C.wide_fail_tasks(seed, 500 if tier == "quick" else 15000))
    EC.campaign(res, PROP, tl,
                "executions with random subsets of calls raising fresh exception objects (Exception, KeyError, BaseException "
                "subclass, SystemExit, KeyboardInterrupt raised in workers), max_errors in {None,0,1,2}, W from 1 to n+1; "
                "the trace carries the identity of every raised object and of CallError.call / __cause__; "
                "non-trivial = distinct execution with at least one failing call started and one preemptive switch")
    return res


def replay(w):
    return EC.replay(PROP, w)
