"""C08, file-backed part: a run over real file stores whose *process dies* (os._exit) at the k-th
file operation, for every k; afterwards a fresh run must produce the from-scratch output and leave
from-scratch contents in every store file. The dying run executes in a forked child with
builtins.open / file.write / file.close / os.replace / os.remove interposed; the follow-up run
executes in the parent on the directory the child left behind."""
import builtins
import io
import os
import pickle

from .. import common


def build(root):
    """A small plan over the bundled file stores: text source -> json -> pickle -> text, plus a touch file."""
    import uberjob
    from uberjob import stores as S

    plan = uberjob.Plan()
    reg = uberjob.Registry()
    p = lambda n: os.path.join(root, n)
    src = reg.source(plan, S.TextFileStore(p("src.txt")))
    a = plan.call(lambda s: {"words": s.split(), "n": len(s), "pad": "x" * 20000}, src)
    reg.add(a, S.JsonFileStore(p("a.json")))
    b = plan.call(lambda d: (d["n"], sorted(d["words"]), b"\x00" * 30000), a)
    reg.add(b, S.PickleFileStore(p("b.pkl")))
    c = plan.call(lambda d, t: f"{d['n']}:{t[0]}:{' '.join(t[1])}" + "y" * 50000, a, b)
    reg.add(c, S.TextFileStore(p("c.txt")))
    t = plan.call(lambda x: None, c)
    reg.add(t, S.TouchFileStore(p("done.touch")))
    return plan, reg, [a, b, c]


FILES = ["a.json", "b.pkl", "c.txt", "done.touch"]


def snapshot(root):
    out = {}
    for f in FILES:
        try:
            with open(os.path.join(root, f), "rb") as fh:
                out[f] = fh.read()
        except OSError:
            out[f] = None
    return out


def run_once(root):
    import uberjob

    plan, reg, outs = build(root)
    return uberjob.run(plan, registry=reg, output=outs, progress=None, max_workers=2)


def dying_run(root, k):
    """In a forked child: run the plan and die at the k-th file operation. Returns (exit status, operations seen)."""
    r, w = os.pipe()
    pid = os.fork()
    if pid == 0:
        try:
            os.close(r)
            count = [0]
            real_open, real_replace, real_remove = builtins.open, os.replace, os.remove

            def tick():
                count[0] += 1
                if count[0] == k:
                    os.write(w, str(count[0]).encode())
                    os._exit(77)

            class Proxy:
                def __init__(self, f):
                    self._f = f

                def write(self, d):
                    tick()
                    return self._f.write(d)

                def close(self):
                    tick()
                    return self._f.close()

                def __enter__(self):
                    return self

                def __exit__(self, *a):
                    self.close()
                    return False

                def __getattr__(self, n):
                    return getattr(self._f, n)

            def my_open(file, mode="r", *a, **kw):
                inside = isinstance(file, (str, os.PathLike)) and os.path.realpath(os.fspath(file)).startswith(os.path.realpath(root) + os.sep)
                if inside and any(c in mode for c in "wax+"):
                    tick()
                    return Proxy(real_open(file, mode, *a, **kw))
                return real_open(file, mode, *a, **kw)

            def my_replace(s, d, *a, **kw):
                tick()
                return real_replace(s, d, *a, **kw)

            def my_remove(p, *a, **kw):
                tick()
                return real_remove(p, *a, **kw)

            import uberjob  # noqa: F401 (loaded before its modules' globals are scanned)
            from .. import interpose

            real_rename, real_unlink, real_io_open = os.rename, os.unlink, io.open
            builtins.open = io.open = my_open
            os.replace = os.rename = my_replace
            os.remove = os.unlink = my_remove
            # modules of the library that bound the functions by name (`from os import replace, remove`); child process: never restored
            interpose.swap_globals([(real_open, my_open), (real_io_open, my_open), (real_replace, my_replace), (real_rename, my_replace),
                                    (real_remove, my_remove), (real_unlink, my_remove)])
            try:
                run_once(root)
            except BaseException:
                os.write(w, ("E" + str(count[0])).encode())
                os._exit(78)
            os.write(w, str(count[0]).encode())
            os._exit(0)
        finally:
            os._exit(79)
    os.close(w)
    data = b""
    while True:
        chunk = os.read(r, 64)
        if not chunk:
            break
        data += chunk
    os.close(r)
    _, status = os.waitpid(pid, 0)
    return os.waitstatus_to_exitcode(status), data.decode()


def check_case(arg):
    """One initial situation x every death position. Returns {'n_ops', 'cases', 'fails'}."""
    situation = arg["situation"]
    fails = []
    with common.scratch("vf-c08f-") as base:
        # reference: from scratch, fault-free
        ref = os.path.join(base, "ref")
        os.makedirs(ref)
        _prepare(ref, situation, ref_only=True)
        exp_out = run_once(ref)
        exp_files = snapshot(ref)
        # count the operations of the run under test
        d0 = os.path.join(base, "count")
        os.makedirs(d0)
        _prepare(d0, situation)
        rc, data = dying_run(d0, -1)
        if rc != 0:
            raise common.MachineryError(f"fault-free child run failed: rc={rc} {data}")
        n_ops = int(data)
        for k in range(1, n_ops + 1):
            d = os.path.join(base, f"k{k}")
            os.makedirs(d)
            _prepare(d, situation)
            rc, data = dying_run(d, k)
            if rc != 77:
                raise common.MachineryError(f"child did not die at operation {k}: rc={rc} {data}")
            left = snapshot(d)
            try:
                out = run_once(d)
            except BaseException as ex:
                fails.append({"k": k, "what": "next_run_failed", "detail": repr(ex)[:300], "left": {f: (None if v is None else len(v)) for f, v in left.items()}})
                continue
            if out != exp_out:
                fails.append({"k": k, "what": "wrong_output_after_repair", "detail": repr(out)[:200]})
                continue
            after = snapshot(d)
            bad = [f for f in FILES if after[f] != exp_files[f]]
            if bad:
                fails.append({"k": k, "what": "wrong_stored_value_after_repair", "detail": f"files {bad}"})
    return {"n_ops": n_ops, "cases": n_ops, "fails": fails, "situation": situation}


def _prepare(d, situation, ref_only=False):
    """Initial directory state: the source, and for 'rebuild' situations a complete older generation of every store."""
    with open(os.path.join(d, "src.txt"), "w") as f:
        f.write("the quick brown fox " * 50)
    if ref_only or situation == "empty":
        return
    # an older generation computed from an older source, then the source is updated
    with open(os.path.join(d, "src.txt"), "w") as f:
        f.write("older source text " * 40)
    os.utime(os.path.join(d, "src.txt"), (10**9, 10**9))
    run_once(d)
    for f in FILES:
        os.utime(os.path.join(d, f), (10**9 + 100, 10**9 + 100))
    with open(os.path.join(d, "src.txt"), "w") as f:
        f.write("the quick brown fox " * 50)


def run_files(res, tier):
    sits = ["empty", "rebuild"]
    outs = common.pmap(check_case, [{"situation": s} for s in sits], nproc=len(sits))
    n = 0
    for o in outs:
        n += o["cases"]
        for f in o["fails"]:
            res.add_violation(f"C08:files:{f['what']}", f"file-backed stores, process death at file operation {f['k']} of a run ({o['situation']} stores): {f['what']}: {f['detail']}",
                              {"files": True, "situation": o["situation"], "failure": f})
    res.merge_counts(evaluations=n, traces_validated_against_impl=0)
    res.coverage["file_backed_death_positions"] = {o["situation"]: o["n_ops"] for o in outs}
