"""C04 — each needed call runs exactly once and nothing unneeded runs."""
import random

from .. import common, engine_campaign as C
from . import engine_common as EC

PROP = "C04"


def run(tier, seed):
    res = common.Result(PROP, tier, seed, "model_checking")
    res.assumptions = list(EC.ASSUMPTIONS)
    if tier == "quick":
        variants = [dict(N=3, maxw=3, configs="ConfigsNoFail"), dict(N=3, maxw=2, configs="ConfigsFull")]
        n, n_small, n_enum, opfrac = 1200, 1, 4, 0.2
    else:
        variants = [dict(N=4, maxw=3, configs="ConfigsNoFail"), dict(N=3, maxw=3, configs="ConfigsFull"),
                    dict(N=5, maxw=4, configs="ConfigsRef")]
        n, n_small, n_enum, opfrac = 40000, 6, 30, 0.3
    runs = EC.run_engine_mc(res, variants)
    EC.mc_verdict(res, PROP, runs, ["OnceOnly", "AllProcessed", "RefinesRunAbs"])
    tl = [C.gen_tasks("plain", n, seed + 100, opcode_frac=opfrac, nmax=8 if tier == "quick" else 12),
          C.gen_tasks("mixed", n // 2, seed + 101, opcode_frac=opfrac)]
    for k in range(n_small):
        tl.append(C.small_shape_tasks(3, seed + 50 + k, fail=(k % 2 == 1)))
    rng = random.Random(f"enum4-{seed}")
    en = C.gen_tasks("plain", n_enum, seed + 107, opcode_frac=0.0, nmax=5)
    for t in en:
        t["mode"] = "enum1"
        t["opts"]["W"] = rng.choice([2, 3])
        t["enum_limit"] = 600 if tier == "quick" else 4000
    tl.append(en)
    tl.append(C.join_enum_tasks(seed, 4 if tier == "quick" else 24, limit=2500 if tier == "quick" else None))
    EC.campaign(res, PROP, tl,
                "executions of uberjob.run under the deterministic scheduler with per-call start counters; outputs: none, "
                "single node, all sinks, nested structures of nodes; failing and retrying plans included; "
                "non-trivial = distinct (plan, options, strategy, seed) with at least one preemptive switch")
    return res


def replay(w):
    return EC.replay(PROP, w)
