"""C15 — progress observers receive an exact, well-formed account of every run.
Progress.tla is the protocol; ProgressTrace.tla validates what recording observers (alone and
as members of a composite) received from real runs: registry histories (stale + run sections,
failures, cuts, dry runs) and engine executions under the deterministic scheduler (all
schedules, failure patterns, max_errors, retry)."""
import random

from .. import cexec as CE, common, cscen as CS, engine_campaign as EC, scen as S, tlc
from . import caching_common as CC

PROP = "C15"

CLAUSES = {
    "enter_once_first", "after_enter", "before_exit", "total_positive", "total_announced_before_running", "running_within_total",
    "completed_follows_running", "failed_follows_running", "exit_after_enter", "exit_once", "nothing_running_at_exit",
    "completed_equals_total", "exited_when_run_ended", "entered_when_run_ended", "composite_members_identical",
    "run_total_per_user_scope", "run_total_sum", "stale_total_examined", "inv_TypeOK",
}


def run_mc(res, tier):
    cfg = """CONSTANTS
  Sections = {"stale", "run"}
  Scopes = {1, 2}
  MaxTotal = %d
  MaxTicks = 1
  MaxRenders = 1
SPECIFICATION Spec
VIEW View
INVARIANT TypeOK
INVARIANT NothingRunningAfterExit
INVARIANT BusyWithinNow
PROPERTY ExitedIsFinal
CHECK_DEADLOCK FALSE
""" % (2 if tier == "quick" else 3)
    import os
    with common.scratch("vf-pg-") as d:
        p = os.path.join(d, "mc.cfg")
        open(p, "w").write(cfg)
        r = tlc.run_tlc("Progress", p, timeout=1200)
    res.merge_counts(states=r.distinct, transitions=r.states)
    res.coverage.setdefault("tlc_runs", []).append({"module": "Progress", "distinct_states": r.distinct, "states_generated": r.states,
                                                   "ok": r.ok, "violated": r.violated, "wall_s": round(r.wall, 1)})
    if not r.ok:
        raise common.MachineryError(f"TLC did not verify Progress.tla: {r.violated}\n{r.trace[:3000] or r.out[-2000:]}")


def count_gathers(o):
    """(number of gather calls plan.gather creates for an output spec, does it contain a node)"""
    if o is None:
        return 0, False
    if "node" in o:
        return 0, True
    if "atom" in o:
        return 0, False
    if "dict" in o:
        n, has = 0, False
        for k, v in o["dict"]:
            nk, hk = count_gathers(k)
            nv, hv = count_gathers(v)
            if hk or hv:
                n += nk + nv + 1  # the (key, value) item tuple
                has = True
        return (n + 1, True) if has else (0, False)
    for key in ("list", "tuple", "set"):
        if key in o:
            n, has = 0, False
            for x in o[key]:
                nx, hx = count_gathers(x)
                if hx:
                    n += nx
                    has = True
            return (n + 1, True) if has else (0, False)
    raise ValueError(o)


def engine_ptrace(task, rec):
    """ProgressTrace record from an engine execution with a recording observer."""
    scn = task["scn"]
    ids = {}

    def sid(sec, sc):
        return ids.setdefault((sec, sc), len(ids) + 1)

    fails = scn.get("fails", {})
    clean = not rec.get("interrupts") and all(f["exc"] in ("Exception", "KeyError", "ValueError", "CallError", "NodeError") for f in fails.values())
    ev, ev2 = [], []
    has2 = False
    starts = {}
    for e in rec["events"]:
        k = e["ev"]
        if k == "start" and e.get("a", 1) == 1:
            starts[e["n"]] = starts.get(e["n"], 0) + 1
        if not (k.startswith("p_") or k.startswith("q_")):
            continue
        tgt = ev if k.startswith("p_") else ev2
        has2 = has2 or k.startswith("q_")
        name = k[2:]
        if name in ("enter", "exit"):
            tgt.append({"e": name, "sec": "", "sc": 0, "amt": 0, "clean": clean})
        else:
            tgt.append({"e": name, "sec": e["sec"], "sc": sid(e["sec"], e["sc"]), "amt": e.get("amt", 0), "clean": clean})
    scopes = scn.get("scopes", {})
    per = {}
    for n, c in starts.items():
        lab = repr((*scopes.get(str(n), []), f"vfscen.f{n}"))
        per[lab] = per.get(lab, 0) + c
    ok = rec["outcome"] == "returned"
    ng, _ = count_gathers(scn.get("output"))
    ev.append({"e": "summary", "sec": "", "sc": 0, "amt": 0, "clean": clean, "ok": ok,
               "exp": [[sid("run", lab), c] for lab, c in sorted(per.items())],
               "runcalls": sum(starts.values()) + ng, "stalecalls": 0, "members_equal": (not has2) or ev2 == ev[:-1] or _same(ev, ev2)})
    for e in ev:
        e.setdefault("ok", False); e.setdefault("exp", []); e.setdefault("runcalls", 0); e.setdefault("stalecalls", 0); e.setdefault("members_equal", True)
    return {"events": ev} if len(ids) <= 48 else None


def _same(ev, ev2):
    a = [(e["e"], e["sec"], e["sc"], e["amt"]) for e in ev if e["e"] != "summary"]
    b = [(e["e"], e["sec"], e["sc"], e["amt"]) for e in ev2]
    return a == b


def _validate_batch(arg):
    _i, batch = arg
    _acc, rej, r = tlc.validate_traces("ProgressTrace", "ProgressTrace.cfg", batch, timeout=1500)
    return {str(k): v for k, v in rej.items()}, (r.distinct if r else 0)


def validate(traces):
    per = max(1, min(300, (len(traces) + common.NPROC - 1) // common.NPROC))
    batches = [(i, traces[i: i + per]) for i in range(0, len(traces), per)]
    outs = common.pmap(_validate_batch, batches)
    rej, states = {}, 0
    for (i0, _b), (r, st) in zip(batches, outs):
        states += st
        for k, v in r.items():
            rej[i0 + int(k) - 1] = [tuple(x) for x in v]
    return rej, states


def collect(tier, seed):
    """(traces, witnesses)"""
    traces, wit = [], []
    # registry histories with observers
    n = 700 if tier == "quick" else 20000
    tasks = CC.gen_tasks(n, seed + 15, p_fault=0.3, p_dry=0.1, p_render=0.0)
    for t in tasks:
        for st in t["steps"]:
            if st["op"] in ("run", "dry") and not st.get("obs"):
                st["obs"] = "rec"
    outs = common.pmap(CE.run_history, tasks)
    for t, o in zip(tasks, outs):
        for pt in o["ptraces"]:
            traces.append(pt)
            wit.append({"kind": "history", "task": t})
    # engine executions under the deterministic scheduler with observers
    m = 900 if tier == "quick" else 30000
    et = EC.gen_tasks("mixed", m, seed + 16, opcode_frac=0.0, nmax=8)
    # ... and runs that fail because a worker thread cannot be started while other workers are already executing calls
    et += EC.gen_tasks("spawnfail", m // 6, seed + 17, opcode_frac=0.0, nmax=8)
    et += EC.spawnfail_enum_tasks(seed + 18, 4 if tier == "quick" else 40)
    rng = random.Random(f"c15-{seed}")
    for t in et:
        t["observer"] = rng.choice(["rec", "rec", "composite"])
        t["keep_events"] = True
    bt = EC.bundled_observer_tasks(seed, 150 if tier == "quick" else 5000)
    ft, fr, _ftr = EC.run_tasks(et)
    bft, bfr, _b = EC.run_tasks(bt)
    ft, fr = ft + bft, fr + bfr
    for t, r in zip(ft, fr):
        if r["outcome"] == "hang":
            continue
        pt = engine_ptrace(t, r)
        if pt:
            traces.append(pt)
            wit.append({"kind": "engine", "task": t})
    return traces, wit


def composite_partial_enter(arg):
    """A composite of observers one of whose members cannot be entered: run raises; every member that was
    entered must be exited exactly once, and no thread of a bundled observer may be left running."""
    order, first_kind = arg
    import threading

    import uberjob
    from uberjob.progress import Progress, console_progress

    from .. import cexec as CE

    lock = threading.Lock()
    sinks = {}

    class Boom(Exception):
        pass

    def failing():
        from uberjob.progress import ProgressObserver

        class F(ProgressObserver):
            def __enter__(self):
                raise Boom("observer cannot be entered")

            def __exit__(self, *a):
                pass

            def increment_total(self, **k):
                pass

            def increment_running(self, **k):
                pass

            def increment_completed(self, **k):
                pass

            def increment_failed(self, **k):
                pass

        return F()

    members = []
    for name in order:
        if name == "F":
            members.append(Progress(failing))
        elif name == "C":
            members.append(console_progress)
        else:
            sinks[name] = []
            members.append(Progress(lambda n=name: CE.make_observer(sinks[n], lock)))
    plan = uberjob.Plan()
    x = plan.call(lambda: 1)
    n0 = threading.active_count()
    raised = None
    import contextlib, io

    with contextlib.redirect_stdout(io.StringIO()):
        try:
            uberjob.run(plan, output=x, progress=tuple(members), max_workers=1)
        except Boom as ex:
            raised = ex
        except BaseException as ex:  # noqa
            raised = ex
    fails = []
    if "F" in order and not isinstance(raised, Boom):
        fails.append({"what": "enter_failure_not_propagated", "detail": repr(raised)[:200]})
    for name, notes in sinks.items():
        ents = sum(1 for k in notes if k[0] == "enter")
        exits = sum(1 for k in notes if k[0] == "exit")
        if ents != exits or ents > 1:
            fails.append({"what": "member_not_exited_exactly_once", "detail": f"member {name} of {order}: entered {ents}, exited {exits}"})
    import time

    t0 = time.time()
    while threading.active_count() > n0 and time.time() - t0 < 3:
        time.sleep(0.05)
    if threading.active_count() > n0:
        left = [t.name for t in threading.enumerate()][n0:]
        fails.append({"what": "observer_thread_left_running", "detail": f"{order}: {threading.active_count() - n0} thread(s) still alive after run raised"})
        # do not let a leaked non-daemon update thread block this worker's exit
        for t in threading.enumerate():
            ev = getattr(getattr(t, "_target", None), "__self__", None)
            if ev is not None and hasattr(ev, "_done_event"):
                ev._done_event.set()
    return {"fails": fails}


PARTIAL_ORDERS = [("A", "F"), ("A", "B", "F"), ("A", "F", "B"), ("F", "A"), ("C", "F"), ("A", "C", "F"), ("A", "B")]


def run_partial(res, prop):
    outs = common.pmap(composite_partial_enter, [(o, None) for o in PARTIAL_ORDERS], nproc=4)
    for o, r in zip(PARTIAL_ORDERS, outs):
        for f in r["fails"]:
            p = "C07" if f["what"] == "observer_thread_left_running" else "C15"
            if p == prop:
                res.add_violation(f"{prop}:composite:{f['what']}", f"composite observer {o}: {f['detail']}", {"partial": True, "order": list(o), "failure": f})
    res.merge_counts(evaluations=len(PARTIAL_ORDERS))
    res.coverage["composite_partial_enter_orders"] = len(PARTIAL_ORDERS)


def run(tier, seed):
    res = common.Result(PROP, tier, seed, "model_checking")
    res.assumptions = [
        "the recording observer's notifications are appended under one lock: the recorded order is the order in which uberjob issued them",
        "per-scope expectations for user calls come from the harness's own call functions (scope = the plan scope it created the call in + the function's qualified name)",
        "'nothing left running' is required only when every call ended normally or with an Exception (the property's premise)",
    ]
    run_mc(res, tier)
    traces, wit = collect(tier, seed)
    rej, states = validate(traces)
    res.merge_counts(states=states, transitions=states, traces_validated_against_impl=len(traces), evaluations=len(traces),
                     distinct_nontrivial=len({common.stable_hash(t["events"]) for t in traces if len(t["events"]) > 6}))
    res.coverage["traces_accepted"] = len(traces) - len(rej)
    res.coverage["by_source"] = {k: sum(1 for w in wit if w["kind"] == k) for k in ("history", "engine")}
    res.coverage["successful_runs_joined"] = sum(1 for t in traces if t["events"][-1]["ok"])
    res.coverage["rule"] = ("one trace per run: notifications received by a recording observer (alone or twice inside a composite) from registry histories "
                            "(seeded random role-assigned plans with scopes, failures, cuts, dry runs) and from engine executions under the deterministic "
                            "scheduler (random / PCT / release-yield schedules, failing and retrying calls, max_errors), joined with the calls that executed; "
                            "non-trivial = distinct notification sequence with more than 6 events")
    for idx, clauses in sorted(rej.items()):
        first = min(l for l, _ in clauses)
        cs = [c for l, c in clauses if l == first]
        unknown = [c for c in cs if c not in CLAUSES]
        if unknown:
            raise common.MachineryError(f"progress monitor: unmapped clauses {unknown} for {wit[idx]['kind']}")
        res.add_violation(f"C15:progress:{cs[0]}", f"Progress clause {cs[0]} broken by the notifications of a real run ({wit[idx]['kind']})",
                          {"source": wit[idx], "clauses": clauses[:10], "events": traces[idx]["events"][:120]})
    run_partial(res, PROP)
    res.add_samples([{"source": wit[0]["kind"], "events": [[e["e"], e["sec"], e["sc"], e["amt"]] for e in traces[0]["events"]][:40]}])
    return res


def replay(w):
    if w["witness"].get("partial"):
        r = composite_partial_enter((tuple(w["witness"]["order"]), None))
        print(r)
        if r["fails"]:
            print(f"VIOLATION property={PROP} replay=(reproduced)")
            return 1
        print("not reproduced")
        return 0
    wit = w["witness"]["source"]
    if wit["kind"] == "history":
        o = CE.run_history(wit["task"])
        traces = o["ptraces"]
    else:
        ft, fr, _ = EC.run_tasks([wit["task"]])
        traces = [t for t in (engine_ptrace(ft[0], fr[0]),) if t]
    rej, _ = validate(traces) if traces else ({}, 0)
    print({k: v[:5] for k, v in rej.items()})
    if rej:
        print(f"VIOLATION property={PROP} replay=(reproduced)")
        return 1
    print("not reproduced")
    return 0
