"""Shared driver for the file-store properties C11 (atomic replace at every failure point) and
C12 (stores return what was written; modified times faithful):
(1) TLC: FileStore.tla, the staged write protocol with a failure or process death possible at
    every file operation, several consecutive writers (exhaustive);
(2) fault enumeration on the real stores: every file operation of a write interposed
    (vf/fsx.py), the k-th one made to raise for every k and two exception kinds, process death
    simulated at every k from the on-disk state; every operation trace validated by
    FileStoreTrace.tla, which also compares what is really on disk with the protocol's state."""
import json
import os
import pathlib
import shutil
import time

from .. import common, fsx, tlc

CLAUSE_PROP = {
    "open_in_write": "C11", "open_no_exception": "C11", "write_to_open_staging": "C11", "close_open_staging": "C11",
    "replace_after_close": "C11", "replace_only_complete": "C11", "replace_not_while_failing": "C11",
    "remove_only_on_exception": "C11", "target_never_written_in_place": "C11", "replace_staging_onto_target": "C11",
    "ok_after_replace": "C11", "ok_new_value_in_place": "C11", "ok_no_staging_left": "C11",
    "raised_had_exception": "C11", "raised_no_staging_left": "C11", "raised_target_old_or_new": "C11",
    "snap_target_old_or_new": "C11", "snap_target_matches_protocol": "C11", "snap_staging_matches_protocol": "C11",
    "snap_mtime_only_with_new": "C11",
    "rejected_value_leaves_target_untouched": "C11",
    "inv_OldOrNew": "C11", "inv_NoStagingAfterException": "C11", "inv_LeftoverStagingHarmless": "C11",
    "recovery_failed": "C11",
    "read_returns_target": "C12", "mtime_none_iff_absent": "C12", "mtime_never_decreases": "C12",
    "inv_ReadReturnsLastWrite": "C12", "inv_MtimeNoneIffAbsent": "C12", "roundtrip": "C12",
}
MACHINERY = {"begin_idle", "kill_in_write", "unknown_event"}

ASSUMPTIONS = [
    "rename(2) is atomic and a file's content on disk is what has been flushed to it (no power-loss / fsync ordering is modelled)",
    "process death is simulated from the on-disk state before each file operation (user-space buffers are lost, nothing else runs); the thorough tier cross-checks with real SIGKILL under strace",
    "file operations are observed through builtins.open / os.replace / os.rename / os.remove / os.unlink; a store that used other primitives (os.open, pathlib) would be reported as a protocol mismatch, not silently passed",
]


def run_mc(res, cleanup, maxwrites=3):
    cfg = f"""CONSTANTS
  MaxWrites = {maxwrites}
  CleanupOnReplaceFailure = {'TRUE' if cleanup else 'FALSE'}
SPECIFICATION Spec
INVARIANT OldOrNew
INVARIANT NoStagingAfterException
INVARIANT LeftoverStagingHarmless
INVARIANT ReadReturnsLastWrite
INVARIANT MtimeNoneIffAbsent
PROPERTY MtimeOnlyWithNew
PROPERTY MtimeMonotone
"""
    with common.scratch("vf-fs-") as d:
        cfgp = os.path.join(d, "mc.cfg")
        with open(cfgp, "w") as f:
            f.write(cfg)
        r = tlc.run_tlc("FileStore", cfgp, timeout=600, workers=4)
    res.merge_counts(states=r.distinct, transitions=r.states)
    res.coverage.setdefault("tlc_runs", []).append(
        {"module": "FileStore", "MaxWrites": maxwrites, "CleanupOnReplaceFailure": cleanup, "distinct_states": r.distinct,
         "states_generated": r.states, "ok": r.ok, "violated": r.violated, "wall_s": round(r.wall, 1)})
    return r


# --------------------------------------------------------------------------------------
# one case = (writer kind, path kind, size) with every fault position


def _mkpath(d, kind, pathkind):
    p = os.path.join(d, "value.dat")
    return pathlib.Path(p) if pathkind == "pathlib" else p


def _snap_event(T, st, old_b, new_b, mt0):
    cls = "same" if (old_b == new_b and st["target"] is not None and st["target"] == new_b) else fsx.classify(st["target"], old_b, new_b)
    return {"e": "snap", "t": cls, "s": st["staging"] is not None, "mc": st["mtime"] != mt0}


def _traced_write(d, path, kind, value, fault, old_b, new_b, mt0, snap_at=None, snap=True):
    """One write() under the tracer. Returns (events incl. begin/end and a final snap, tracer, exception or None)."""
    w, _r, _m = fsx.writers()[kind](path)
    T = fsx.Tracer(d, path, fault=fault, snap=snap, snap_at=snap_at)
    T.log("begin")
    exc = None
    with T:
        try:
            w(value)
        except BaseException as ex:  # noqa: the store's own error handling is what is being observed
            exc = ex
    if exc is not None and not any(e["e"] == "raise" or e.get("fail") for e in T.events):
        T.log("raise")  # raised before / outside any file operation (argument validation)
    T.log("end", ok=exc is None)
    T.events.append(_snap_event(T, T.disk(), old_b, new_b, mt0))
    return T, exc


def _read_event(kind, path, old_v, new_v):
    _w, r, _m = fsx.writers()[kind](path)
    try:
        v = r()
    except FileNotFoundError:
        return {"e": "read", "t": "absent"}
    except Exception:
        return {"e": "read", "t": "other"}
    def same(a, b):
        if b is None and kind != "TouchFileStore":
            return False
        if kind.startswith("staged_write"):
            b = (b"" if kind != "staged_write_text" else "").join(b)
        return type(a) is type(b) and a == b
    if same(v, new_v) and same(v, old_v):
        return {"e": "read", "t": "same"}
    if same(v, new_v):
        return {"e": "read", "t": "new"}
    if same(v, old_v):
        return {"e": "read", "t": "old"}
    return {"e": "read", "t": "other"}


def norm_ev(e):
    d = {"role": "none", "mode": "none", "fail": False, "src": "none", "dst": "none", "ok": False, "t": "none", "s": False,
         "mc": False, "none": False, "dec": False}
    d.update(e)
    return d


def run_case(case):
    """case: {kind, pathkind, big, seed}. Produces traces:
       - fault-free: write(old), write(new), read, write(old again), read
       - for every operation index k of write(new) and each exception kind: ... write(new) failing at k, snap, read, write(third), read
       - for every k: process death before operation k (and after the last), then write(third) + read in the surviving directory
       - a value whose serialisation fails part-way"""
    kind, pathkind, big = case["kind"], case["pathkind"], case.get("big", False)
    old_v, new_v, bad_v = fsx.sample_values(kind, big)
    traces = []
    meta = []
    extra = []  # harness-level findings
    with common.scratch("vf-fsx-") as root:
        ref = os.path.join(root, "ref")
        os.makedirs(ref)
        old_b = fsx.reference_bytes(kind, old_v, ref)
        new_b = fsx.reference_bytes(kind, new_v, ref)
        serial = [0]

        def fresh_dir():
            serial[0] += 1
            d = os.path.join(root, f"c{serial[0]}")
            os.makedirs(d)
            return d

        def establish(d):
            """write(old) fault-free, then age the file so that any rewrite changes its modified time."""
            path = _mkpath(d, kind, pathkind)
            T, exc = _traced_write(d, path, kind, old_v, None, None, old_b, None)
            if exc is not None:
                raise common.MachineryError(f"fault-free write failed for {kind}: {exc!r}")
            os.utime(path, ns=(10**18, 10**18))
            ev = T.events[:-1]  # its final snap classifies against (None, old): drop, re-snap below
            return path, ev

        def follow_up(d, path, events):
            """after the write under test: read, one more write (of the old value) fault-free, read."""
            events.append(_read_event(kind, path, old_v, new_v))
            mt0 = _mt(path)
            T3, exc3 = _traced_write(d, path, kind, old_v, None, new_b if False else None, old_b, mt0)
            if exc3 is not None:
                extra.append({"clause": "recovery_failed", "what": f"write after the faulted write raised {exc3!r}"})
            ev3 = T3.events
            # classes of the third write refer to it: "new" = old_v's bytes
            events += ev3
            events.append(_read_event(kind, path, None, old_v))
            return events

        # count the operations of a fault-free write(new)
        d = fresh_dir()
        path, ev0 = establish(d)
        mt0 = _mt(path)
        # first count the operations, then choose the fault positions: all of them, or for writes with
        # very many operations the first 6, the last 6 and a seeded sample in between
        dc = fresh_dir()
        pc, _ = establish(dc)
        Tc, excc = _traced_write(dc, pc, kind, new_v, None, old_b, new_b, _mt(pc), snap=False)
        if excc is not None:
            raise common.MachineryError(f"fault-free second write failed for {kind}: {excc!r}")
        nops = Tc.k
        if nops <= 40:
            positions = list(range(1, nops + 1))
        else:
            import random as _r
            rr = _r.Random(f"{kind}-{case.get('seed', 0)}")
            positions = sorted(set(list(range(1, 7)) + list(range(nops - 5, nops + 1)) + rr.sample(range(7, nops - 5), 12)))
        T, exc = _traced_write(d, path, kind, new_v, None, old_b, new_b, mt0, snap_at=set(positions))
        if exc is not None:
            raise common.MachineryError(f"fault-free second write failed for {kind}: {exc!r}")
        snaps = T.snaps  # on-disk state before the chosen counted operations of the fault-free write
        final_state = T.disk()  # ... and after the last one
        base_events = list(T.events)
        events = ev0 + list(T.events)
        follow_up(d, path, events)
        traces.append({"events": [norm_ev(e) for e in events]})
        meta.append({"kind": kind, "pathkind": pathkind, "big": big, "fault": None})
        # exceptions at every operation
        for k in positions:
            for fk in ("oserror", "kbint"):
                d = fresh_dir()
                path, ev0 = establish(d)
                mt0 = _mt(path)
                T, exc = _traced_write(d, path, kind, new_v, {"at": k, "kind": fk}, old_b, new_b, mt0, snap=False)
                events = ev0 + list(T.events)
                if T.fault_hit and exc is None:
                    extra.append({"clause": "fault_swallowed", "what": f"injected {fk} at operation {k} did not propagate"})
                follow_up(d, path, events)
                traces.append({"events": [norm_ev(e) for e in events]})
                meta.append({"kind": kind, "pathkind": pathkind, "big": big, "fault": {"at": k, "kind": fk}})
        # process death before operation k (the on-disk state then), and after the last operation
        for (k, st) in snaps + [(nops + 1, final_state)]:
            d = fresh_dir()
            path = _mkpath(d, kind, pathkind)
            # rebuild the directory as it was on disk at that moment
            if st["target"] is not None:
                with open(os.fspath(path), "wb") as f:
                    f.write(st["target"])
                if st["mtime"] is not None:
                    os.utime(path, ns=(st["mtime"], st["mtime"]))
            if st["staging"] is not None:
                with open(os.path.join(os.path.dirname(os.fspath(path)), st.get("staging_name") or (os.path.basename(os.fspath(path)) + ".STAGING")), "wb") as f:
                    f.write(st["staging"])
            # the trace: write(old), the operations of write(new) performed before the death, kill, what is on disk
            cut = _events_before_op(base_events, k)
            events = list(_establish_events_only(kind)) + cut + [{"e": "kill"}]
            events.append(_snap_event(None, fsx.disk_state(path), old_b, new_b, snaps[0][1]["mtime"]))
            follow_up(d, path, events)
            traces.append({"events": [norm_ev(e) for e in events]})
            meta.append({"kind": kind, "pathkind": pathkind, "big": big, "fault": {"at": k, "kind": "kill"}})
        # serialisation failing part-way
        if bad_v is not None:
            d = fresh_dir()
            path, ev0 = establish(d)
            mt0 = _mt(path)
            T, exc = _traced_write(d, path, kind, bad_v, None, old_b, new_b, mt0)
            events = ev0 + list(T.events)
            if exc is None:
                extra.append({"clause": "bad_value_accepted", "what": "unserialisable value was written without error"})
            else:
                # the value can never be "in place": the write must leave the previous value and its modified time alone
                sn = events[-1]
                events.append({"e": "rejected", "t": sn["t"], "mc": sn["mc"]})
            follow_up(d, path, events)
            traces.append({"events": [norm_ev(e) for e in events]})
            meta.append({"kind": kind, "pathkind": pathkind, "big": big, "fault": {"kind": "serialisation"}})
    return {"traces": traces, "meta": meta, "extra": extra, "nops": nops, "positions": len(positions)}


def _mt(path):
    try:
        return os.stat(path).st_mtime_ns
    except OSError:
        return None


_EST = {}


def _establish_events_only(kind):
    """Events of a fault-free first write (identical for every directory): computed once per kind."""
    if kind not in _EST:
        with common.scratch("vf-fsx-est-") as d:
            path = os.path.join(d, "value.dat")
            old_v, _n, _b = fsx.sample_values(kind, False)
            T, exc = _traced_write(d, path, kind, old_v, None, None, None, None)
            _EST[kind] = [e for e in T.events[:-1]]
    return _EST[kind]


def _events_before_op(events, k):
    """Prefix of a write's events containing `begin` and the first k-1 counted operations (plus the
    uncounted events between them)."""
    out = []
    n = 0
    for e in events:
        if e["e"] in ("end", "snap"):
            break
        counted = (e["e"] in ("write", "close", "replace", "remove")) or (e["e"] == "open" and e.get("mode") == "w")
        if counted:
            n += 1
            if n >= k:
                break
        out.append(e)
    return out


def all_cases(tier):
    kinds = list(fsx.writers())
    cases = []
    for kind in kinds:
        for pk in ("str", "pathlib"):
            cases.append({"kind": kind, "pathkind": pk, "big": False})
            if tier != "quick" or kind in ("JsonFileStore", "PickleFileStore", "TextFileStore"):
                cases.append({"kind": kind, "pathkind": pk, "big": True})
    return cases


def validate(traces):
    if not traces:
        return {}, 0
    per = max(1, min(400, (len(traces) + common.NPROC - 1) // common.NPROC))
    batches = [(i, traces[i: i + per]) for i in range(0, len(traces), per)]
    outs = common.pmap(_validate_batch, batches)
    rej, states = {}, 0
    for (i0, _b), (r, st) in zip(batches, outs):
        states += st
        for k, v in r.items():
            rej[i0 + int(k) - 1] = [tuple(x) for x in v]
    return rej, states


def _validate_batch(arg):
    _i0, batch = arg
    _acc, rej, r = tlc.validate_traces("FileStoreTrace", "FileStoreTrace.cfg", batch, timeout=900)
    return {str(k): v for k, v in rej.items()}, (r.distinct if r else 0)


def classify(clauses):
    out = {}
    first_l = min(l for l, _ in clauses)
    first_mach = all(c in MACHINERY for l, c in clauses if l == first_l)
    for l, c in clauses:
        if c in MACHINERY:
            out.setdefault("machinery" if first_mach else "consequence", []).append(c)
            continue
        p = CLAUSE_PROP.get(c)
        if p is None:
            out.setdefault("machinery", []).append("unmapped:" + c)
            continue
        out.setdefault(p, []).append(c if l == first_l else c + "(secondary)")
    return out


def fault_campaign(res, prop, tier):
    cases = all_cases(tier)
    t0 = time.time()
    outs = common.pmap(run_case, cases)
    traces, metas, extras = [], [], []
    for c, o in zip(cases, outs):
        for t, m in zip(o["traces"], o["meta"]):
            traces.append(t)
            metas.append(m)
        for x in o["extra"]:
            extras.append((c, x))
    t1 = time.time()
    rej, states = validate(traces)
    res.coverage["exec_wall_s"] = round(t1 - t0, 1)
    res.coverage["validate_wall_s"] = round(time.time() - t1, 1)
    res.merge_counts(states=states, transitions=states, traces_validated_against_impl=len(traces), evaluations=len(traces),
                     distinct_nontrivial=len({json.dumps(m, sort_keys=True) for m in metas if m["fault"]}))
    res.coverage["cases"] = len(cases)
    res.coverage["operations_per_write"] = {f"{c['kind']}/{'big' if c.get('big') else 'small'}": o["nops"] for c, o in zip(cases, outs)}
    res.coverage["traces_accepted"] = len(traces) - len(rej)
    other = {}
    for idx, clauses in sorted(rej.items()):
        by = classify(clauses)
        m = metas[idx]
        for p, cs in by.items():
            if p == prop:
                prim = [c for c in cs if not c.endswith("(secondary)")] or cs
                c0 = prim[0].replace("(secondary)", "")
                fk = (m["fault"] or {}).get("kind", "none")
                res.add_violation(f"{prop}:filestore:{c0}:{fk}",
                                  f"{m['kind']} ({m['pathkind']} path): FileStore clause {c0} broken with fault {m['fault']}",
                                  {"case": m, "clauses": clauses[:10], "events": traces[idx]["events"][:80]})
            else:
                d = other.setdefault(p, {})
                for c in cs:
                    d[c] = d.get(c, 0) + 1
    for c, x in extras:
        p = CLAUSE_PROP.get(x["clause"], "C11")
        if p == prop:
            res.add_violation(f"{prop}:filestore:{x['clause']}", f"{c['kind']}: {x['what']}", {"case": c, "what": x})
    if other:
        res.coverage["clauses_broken_for_other_properties"] = other
        if "machinery" in other:
            raise common.MachineryError(f"file-store monitor reported harness-level inconsistencies: {other['machinery']}")
    res.add_samples([{"case": metas[i], "events": [[e["e"], e["role"], e["fail"], e["t"]] for e in traces[i]["events"]][:40]} for i in (0, min(5, len(traces) - 1))])
    return traces, metas


def replay(prop, w):
    wit = w["witness"]
    case = wit.get("case")
    if not case or "kind" not in case:
        print("witness has no case to re-run")
        return 0
    o = run_case({"kind": case["kind"], "pathkind": case["pathkind"], "big": case.get("big", False)})
    rej, _ = validate(o["traces"])
    hit = False
    for idx, clauses in rej.items():
        by = classify(clauses)
        if prop in by:
            hit = True
            print(o["meta"][idx], by[prop][:5])
    if hit:
        print(f"VIOLATION property={prop} replay=(reproduced)")
        return 1
    print("not reproduced")
    return 0
