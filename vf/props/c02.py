"""C02 — run returns exactly what direct evaluation of the call graph would return.
Expr.tla specifies gather / evaluation over a term grammar (atoms, nodes, exact list / tuple /
set / dict, opaque container subclasses) and is model-checked against plain substitution.
Programs built from terms - the complete small family and seeded deeper ones - are run on the
real library as run(output=term), as positional / keyword arguments of a recording call and
through unpack, under several worker counts and both schedulers; ExprTrace.tla compares what
came back (shape, exact types, identity of node-free parts, keyword order) with Exp(term)."""
import collections
import itertools
import os
import random

from .. import common, tlc

PROP = "C02"
NODEVAL = [1, 2, 1, 3, 2, 4]  # TraceNodeVal of ExprTrace.tla: nodes 1/3 and 2/5 evaluate to the same object


class Sentinel:
    __slots__ = ("name",)

    def __init__(self, name):
        self.name = name

    def __repr__(self):
        return self.name


class Twin(Sentinel):
    """Plain values that are equal, hash alike and have the same type but are different objects (as 0.0 and -0.0,
    or two equal tuples, are): a call must still receive the very object it was given."""

    __slots__ = ()

    def __eq__(self, other):
        return type(other) is Twin

    def __hash__(self):
        return 7


class MyList(list):
    pass


class MyTuple(tuple):
    pass


class MyDict(dict):
    pass


Pair = collections.namedtuple("Pair", "a b")

ATOMS = {i: (Twin if i >= 3 else Sentinel)(f"atom{i}") for i in range(1, 5)}  # atoms 3 and 4 are twins
VALS = {i: Sentinel(f"val{i}") for i in range(1, 6)}


def Tm(k, i=0, c=()):
    return {"k": k, "i": i, "c": list(c)}


def leaves(natoms=2, nnodes=3):
    return [Tm("atom", a) for a in range(1, natoms + 1)] + [Tm("node", n) for n in range(1, nnodes + 1)]


def depth1_family():
    """Every term of depth <= 1 over 2 atoms and 3 nodes with at most 2 children (dict / set over distinct leaves)."""
    L = leaves()
    out = list(L)
    for kind in ("list", "tuple", "sub"):
        for w in range(0, 3):
            for c in itertools.product(L, repeat=w):
                out.append(Tm(kind, 0, c))
    for w in range(0, 3):
        for c in itertools.permutations(L, w):
            out.append(Tm("set", 0, c))
            for vals in itertools.product(L[:3], repeat=w):
                out.append(Tm("dict", 0, [Tm("item", 0, [k, v]) for k, v in zip(c, vals)]))
    return out


def random_term(rng, depth, natoms=4, nnodes=6):
    L = leaves(natoms, nnodes)
    r = rng.random()
    if depth <= 0 or r < 0.3:
        return dict(rng.choice(L))
    kind = rng.choice(["list", "tuple", "sub", "set", "dict", "list", "tuple"])
    w = rng.randint(0, 3)
    if kind in ("set", "dict"):
        L = [x for x in L if not (x["k"] == "atom" and x["i"] == 4)]  # twins are equal: never both in one set / as keys of one dict
    if kind == "set":
        return Tm("set", 0, [dict(x) for x in rng.sample(L, min(w, len(L)))])
    if kind == "dict":
        keys = rng.sample(L, min(w, len(L)))
        return Tm("dict", 0, [Tm("item", 0, [dict(k), random_term(rng, depth - 1, natoms, nnodes)]) for k in keys])
    return Tm(kind, 0, [random_term(rng, depth - 1, natoms, nnodes) for _ in range(w)])


def number_containers(t, counter):
    """Give every container (and opaque object) of the term a unique id, in place."""
    if t["k"] in ("atom", "node"):
        return t
    if t["k"] != "item":
        counter[0] += 1
        t["i"] = counter[0]
    for c in t["c"]:
        number_containers(c, counter)
    return t


class Program:
    """A term instantiated on a fresh Plan."""

    def __init__(self):
        import uberjob

        self.uberjob = uberjob
        self.plan = uberjob.Plan()
        self.nodes = {}
        self.by_id = {}  # id(original container object) -> term id

    def node(self, n):
        if n not in self.nodes:
            v = VALS[NODEVAL[n - 1]]
            self.nodes[n] = self.plan.call(lambda v=v: v)
        return self.nodes[n]

    def build(self, t):
        k = t["k"]
        if k == "atom":
            return ATOMS[t["i"]]
        if k == "node":
            return self.node(t["i"])
        kids = [self.build(c) for c in t["c"]] if k != "dict" else None
        if k == "list":
            o = list(kids)
        elif k == "tuple":
            o = tuple(kids)
        elif k == "set":
            o = set(kids)
        elif k == "dict":
            o = {self.build(it["c"][0]): self.build(it["c"][1]) for it in t["c"]}
        elif k == "sub":
            # an opaque container: a subclass instance (rotating over the kinds)
            sel = t["i"] % 4
            o = MyList(kids) if sel == 0 else MyTuple(kids) if sel == 1 else MyDict({j: x for j, x in enumerate(kids)}) if sel == 2 else Pair(tuple(kids), len(kids))
        else:
            raise ValueError(k)
        hit = self.by_id.get(id(o))
        if hit is not None and hit[1] is o:
            t["i"] = hit[0]  # CPython shares some immutable objects (the empty tuple): one object, one identifier
        else:
            self.by_id[id(o)] = (t["i"], o)
        return o

    def enc(self, x):
        """Encode a value that came back, for comparison with Exp(term)."""
        for a, o in ATOMS.items():
            if x is o:
                return {"v": "obj", "i": a, "c": []}
        for v, o in VALS.items():
            if x is o:
                return {"v": "val", "i": v, "c": []}
        hit = self.by_id.get(id(x))
        if hit is not None and hit[1] is x:
            return {"v": "same", "i": hit[0], "c": []}
        tx = type(x)
        if tx is list:
            return {"v": "list", "i": 0, "c": [self.enc(y) for y in x]}
        if tx is tuple:
            return {"v": "tuple", "i": 0, "c": [self.enc(y) for y in x]}
        if tx is set:
            m = [self.enc(y) for y in x]
            m.sort(key=lambda e: ({"obj": 0, "val": 1000}.get(e["v"], 2000)) + e["i"])
            return {"v": "set", "i": 0, "c": m}
        if tx is dict:
            return {"v": "dict", "i": 0, "c": [{"v": "item", "i": 0, "c": [self.enc(k), self.enc(v)]} for k, v in x.items()]}
        return {"v": "other", "i": 0, "c": []}


def run_program(arg):
    """arg: {mode, term | pos, kw | n, m; W, sched}. Returns the trace event."""
    mode = arg["mode"]
    P = Program()
    uberjob = P.uberjob
    kw = dict(max_workers=arg.get("W", 1), scheduler=arg.get("sched"), progress=None)
    if mode == "output":
        t = arg["term"]
        obj = P.build(t)
        try:
            res = uberjob.run(P.plan, output=obj, **kw)
            return {"mode": mode, "term": t, "ok": True, "obs": P.enc(res)}
        except Exception as ex:
            return {"mode": mode, "term": t, "ok": False, "obs": {"v": "error", "i": 0, "c": []}, "err": repr(ex)[:300]}
    if mode == "args":
        pos = [P.build(t) for t in arg["pos"]]
        kws = [(name, P.build(t)) for name, t in arg["kw"]]
        got = []

        def rec(*a, **k):
            got.append((a, list(k.items())))
            return 0

        node = P.plan.call(rec, *pos, **dict(kws))
        try:
            uberjob.run(P.plan, output=node, **kw)
            a, k = got[0]
            return {"mode": mode, "pos": arg["pos"], "kw": [[n, t] for n, t in arg["kw"]], "ok": len(got) == 1,
                    "pos_obs": [P.enc(x) for x in a], "kw_obs": [[n, P.enc(v)] for n, v in k]}
        except Exception as ex:
            return {"mode": mode, "pos": arg["pos"], "kw": [[n, t] for n, t in arg["kw"]], "ok": False, "pos_obs": [], "kw_obs": [], "err": repr(ex)[:300]}
    if mode == "unpack":
        n, m, src = arg["n"], arg["m"], arg["src"]
        if src == "list":
            it = P.plan.call(lambda: list(range(1, m + 1)))
        elif src == "gen":
            it = P.plan.call(lambda: (j for j in range(1, m + 1)))
        elif src == "infinite":
            it = P.plan.call(lambda: itertools.count(1))
        elif src == "dict":
            it = P.plan.call(lambda: {j: str(j) for j in range(1, m + 1)})      # iterating a dict yields its keys
        elif src == "frozenset":
            it = P.plan.call(lambda: frozenset(range(1, m + 1)))
        elif src == "dictvalues":
            it = P.plan.call(lambda: {str(j): j for j in range(1, m + 1)}.values())
        elif src == "literal_dict":
            it = {j: str(j) for j in range(1, m + 1)}
        else:
            it = P.plan.call(lambda: tuple(range(1, m + 1)))
        parts = P.plan.unpack(it, n)
        try:
            res = uberjob.run(P.plan, output=list(parts), **kw)
            return {"mode": mode, "n": n, "m": m, "ok": True, "items": list(res) if all(isinstance(x, int) for x in res) else [-1]}
        except uberjob.CallError:
            return {"mode": mode, "n": n, "m": m, "ok": False, "items": []}
    raise ValueError(mode)


def norm_event(e):
    d = {"mode": "", "term": Tm("none"), "ok": False, "obs": {"v": "none", "i": 0, "c": []}, "pos": [], "kw": [], "pos_obs": [], "kw_obs": [],
         "n": 0, "m": 0, "items": []}
    d.update({k: v for k, v in e.items() if k != "err"})
    return d


def gen_programs(tier, seed):
    rng = random.Random(f"c02-{seed}")
    progs = []
    fam = depth1_family()
    for t in fam:
        t = number_containers(_copy(t), [0])
        progs.append({"mode": "output", "term": t, "W": rng.choice([1, 3]), "sched": rng.choice([None, "random"])})
    n_rand = 500 if tier == "quick" else 20000
    for _ in range(n_rand):
        t = number_containers(random_term(rng, rng.choice([2, 2, 3])), [0])
        progs.append({"mode": "output", "term": t, "W": rng.choice([1, 2, 4]), "sched": rng.choice([None, "default", "random"])})
    # argument binding: positional and keyword arguments in every mix, the same node under several names
    names = ["alpha", "beta", "gamma", "delta", "x", "a", "zz"]
    for _ in range(500 if tier == "quick" else 20000):
        counter = [0]
        npos, nkw = rng.randint(0, 3), rng.randint(0, 4)
        pos = [number_containers(random_term(rng, rng.choice([0, 0, 1, 2])), counter) for _ in range(npos)]
        kn = rng.sample(names, nkw)
        kwl = [[n, number_containers(random_term(rng, rng.choice([0, 0, 0, 1, 2])), counter)] for n in kn]
        progs.append({"mode": "args", "pos": pos, "kw": kwl, "W": rng.choice([1, 3]), "sched": rng.choice([None, "random"])})
    for n in range(0, 4):
        for m in range(0, 6):
            for src in ("list", "tuple", "gen", "dict", "frozenset", "dictvalues", "literal_dict"):
                progs.append({"mode": "unpack", "n": n, "m": m, "src": src, "W": rng.choice([1, 2])})
        progs.append({"mode": "unpack", "n": n, "m": 99, "src": "infinite", "W": 1})
    return progs


def _copy(t):
    return {"k": t["k"], "i": t["i"], "c": [_copy(c) for c in t["c"]]}


def _validate_batch(arg):
    _i, batch = arg
    _acc, rej, r = tlc.validate_traces("ExprTrace", "ExprTrace.cfg", batch, timeout=1500)
    return {str(k): v for k, v in rej.items()}, (r.distinct if r else 0)


def run(tier, seed):
    res = common.Result(PROP, tier, seed, "model_checking")
    res.assumptions = [
        "values are abstracted to sentinel objects (atoms, node values, container identities); arbitrary user functions and value types are outside a TLA+ model",
        "set members and dict keys are leaves (atoms / nodes); two nodes may evaluate to the same object (colliding keys, collapsing sets)",
        "container subclasses (list / tuple / dict subclasses, namedtuples) are opaque: passed through as the very objects supplied even if they hold nodes",
    ]
    r = tlc.run_tlc("MC_Expr", "MC_Expr.cfg", timeout=1200)
    res.merge_counts(states=r.distinct, transitions=r.states)
    res.coverage.setdefault("tlc_runs", []).append({"module": "MC_Expr", "distinct_states": r.distinct, "ok": r.ok, "violated": r.violated, "wall_s": round(r.wall, 1)})
    if not r.ok:
        raise common.MachineryError(f"TLC did not verify Expr.tla: {r.violated}\n{r.trace[:2500] or r.out[-2000:]}")
    progs = gen_programs(tier, seed)
    events = common.pmap(run_program, progs)
    per = max(1, (len(events) + common.NPROC - 1) // common.NPROC)
    batches = [(i, [{"events": [norm_event(e) for e in events[i:i + per]]}]) for i in range(0, len(events), per)]
    vouts = common.pmap(_validate_batch, batches)
    states = 0
    bad = []
    for (i0, _b), (rj, st) in zip(batches, vouts):
        states += st
        for _tid, clauses in rj.items():
            for l, c in clauses:
                bad.append((i0 + l - 1, c))
    res.merge_counts(states=states, transitions=states, traces_validated_against_impl=len(events), evaluations=len(events),
                     distinct_nontrivial=len({common.stable_hash({k: v for k, v in p.items() if k not in ("W", "sched")}) for p in progs}))
    res.coverage["by_mode"] = {m: sum(1 for p in progs if p["mode"] == m) for m in ("output", "args", "unpack")}
    res.coverage["depth1_family_exhaustive"] = len(depth1_family())
    res.coverage["rule"] = ("programs built from terms: the complete family of depth <= 1 over 2 atoms and 3 nodes (<= 2 children), seeded random terms of depth <= 3, "
                            "argument lists with 0-3 positional and 0-4 keyword arguments, unpack lengths 0-3 against iterables of length 0-5 (lists, tuples, generators, an infinite iterator); "
                            "W in {1,2,3,4}, both schedulers; non-trivial = distinct program")
    # the same value under every schedule: executions under the deterministic scheduler (random / PCT / release-yield
    # strategies, bounded-preemption enumeration around joins); the harness compares the returned value with direct evaluation
    from .. import engine_campaign as EC
    from . import engine_common as ECm

    rule = res.coverage["rule"]
    tl = [EC.gen_tasks("plain", 700 if tier == "quick" else 30000, seed + 2, opcode_frac=0.1, nmax=8),
          EC.join_enum_tasks(seed + 2, 4 if tier == "quick" else 24, limit=2500 if tier == "quick" else None)]
    ECm.campaign(res, PROP, tl, rule)
    res.coverage["rule"] = rule + "; plus fault-free executions of random plans under the deterministic scheduler whose returned value is compared with direct evaluation"
    for idx, c in bad:
        p = progs[idx]
        res.add_violation(f"C02:{c}", f"{p['mode']} program: {c}: {events[idx].get('err') or events[idx].get('obs') or events[idx].get('kw_obs')}",
                          {"program": p, "event": events[idx]})
    res.add_samples([{"program": progs[i], "event": {k: v for k, v in events[i].items() if k in ("ok", "obs", "kw_obs", "items")}} for i in (40, len(progs) - 1)])
    return res


def replay(w):
    p = w["witness"]["program"]
    e = run_program(p)
    _acc, rej, _ = tlc.validate_traces("ExprTrace", "ExprTrace.cfg", [{"events": [norm_event(e)]}])
    print(e, rej)
    if rej:
        print(f"VIOLATION property={PROP} replay=(reproduced)")
        return 1
    print("not reproduced")
    return 0
