"""Shared driver for the engine-level properties C01 C04 C06 C07 C10 C17:
(1) TLC: Engine.tla refines RunAbs.tla and satisfies its own invariants / liveness on small
    configurations (exhaustive);
(2) controlled executions of the real uberjob.run under the deterministic scheduler, validated
    against RunAbs by the trace monitor RunAbsTrace.tla; a broken clause that speaks about this
    property is a violation."""
import json
import os
import time

from .. import common, engine_campaign as C, tlc

ENGINE_INVS = [
    "TypeOK", "OnceOnly", "DepsOk", "UnfinishedAccounting", "DecUnderLock", "FailUnderLock",
    "CleanAtEnd", "JoinedAtEnd", "ReportedFailed", "WorkersBound", "FailBound", "AllProcessed",
]

POOL_MODE = "fixed"  # the worker-pool protocol of /repo after the fix: commit (see known_findings.json)


def engine_cfg(N, maxw, configs, intr=False, spawn=False, instart=False, mode=POOL_MODE, refinement=True, liveness=True):
    lines = [
        "CONSTANTS",
        f"  N = {N}",
        f"  MaxW = {maxw}",
        f"  EConfigs <- {configs}",
        f"  AllowInterrupt = {'TRUE' if intr else 'FALSE'}",
        f"  AllowInStartIntr = {'TRUE' if instart else 'FALSE'}",
        f"  AllowSpawnFail = {'TRUE' if spawn else 'FALSE'}",
        f'  PoolMode = "{mode}"',
        "SPECIFICATION Spec",
    ]
    lines += [f"INVARIANT {i}" for i in ENGINE_INVS]
    if refinement:
        lines.append("PROPERTY RefinesRunAbs")
    if liveness:
        lines.append("PROPERTY Terminates")
    return "\n".join(lines) + "\n"


def run_engine_mc(res, variants, timeout=5400):
    """variants: list of dicts of engine_cfg kwargs. Adds states/transitions to res.coverage and
    returns the list of (variant, TlcRun)."""
    out = []
    with common.scratch("vf-mc-") as d:
        for v in variants:
            cfgp = os.path.join(d, "mc.cfg")
            with open(cfgp, "w") as f:
                f.write(engine_cfg(**v))
            r = tlc.run_tlc("MC_Engine", cfgp, timeout=timeout)
            out.append((v, r))
            res.merge_counts(states=r.distinct, transitions=r.states)
            res.coverage.setdefault("tlc_runs", []).append(
                {"module": "MC_Engine", "params": v, "distinct_states": r.distinct, "states_generated": r.states,
                 "depth": r.depth, "ok": r.ok, "violated": r.violated, "wall_s": round(r.wall, 1)}
            )
    return out


def run_runabs_mc(res, N=3, maxw=2, attempts="{1, 2}", timeout=1500):
    cfg = f"""CONSTANTS
  N = {N}
  MaxW = {maxw}
  MaxErrs <- MaxErrsAll
  AttemptsSet = {attempts}
  Configs <- MCConfigs
SPECIFICATION Spec
INVARIANT TypeOK
INVARIANT AttemptsBounded
INVARIANT ExactlyNeeded
INVARIANT Containment
INVARIANT RaiseNamesFailure
INVARIANT NoValueOnFailure
INVARIANT Quiescent
INVARIANT WorkersBound
INVARIANT FailBound
INVARIANT SerialFailCount
INVARIANT UnlimitedRunsAll
INVARIANT RetrySuccessCounts
INVARIANT InterruptPropagates
INVARIANT LateBounded
PROPERTY DepsFirst
PROPERTY AtMostOnce
PROPERTY Terminates
"""
    with common.scratch("vf-mc-") as d:
        cfgp = os.path.join(d, "mc.cfg")
        with open(cfgp, "w") as f:
            f.write(cfg)
        r = tlc.run_tlc("MC_RunAbs", cfgp, timeout=timeout)
    res.merge_counts(states=r.distinct, transitions=r.states)
    res.coverage.setdefault("tlc_runs", []).append(
        {"module": "MC_RunAbs", "params": {"N": N, "MaxW": maxw, "attempts": attempts}, "distinct_states": r.distinct,
         "states_generated": r.states, "depth": r.depth, "ok": r.ok, "violated": r.violated, "wall_s": round(r.wall, 1)}
    )
    return r


def mc_verdict(res, prop, runs, relevant):
    """A TLC counterexample on the specification alone is not a violation of the code (DESIGN
    section 5.2): it means specification and code disagree or the design is broken. The check
    fails as a machinery error so that it is looked at, never silently passed."""
    for v, r in runs:
        if not r.ok:
            raise common.MachineryError(
                f"TLC did not verify the specification for {prop} with {v}: violated={r.violated} rc={getattr(r, 'rc', None)}\n{r.trace[:3000] or r.out[-2000:]}"
            )


def campaign(res, prop, task_lists, label_rule):
    """Run the executions, validate the traces, turn clause failures for `prop` into violations."""
    tasks = [t for tl in task_lists for t in tl]
    # the preemption set / granularity is fixed per worker process: partition by (opcode, files)
    groups = {}
    for t in tasks:
        groups.setdefault((bool(t.get("opcode")), tuple(t.get("files", ()))), []).append(t)
    ft, fr, ftr = [], [], []
    for _k, g in sorted(groups.items()):
        a, b, c = C.run_tasks(g)
        ft += a
        fr += b
        ftr += c
    findings, st = C.validate(ft, fr, ftr)
    findings += C.value_findings(ft, fr)
    res.merge_counts(
        states=st["trace_states"], transitions=st["trace_states"],
        traces_validated_against_impl=st["validated"], evaluations=len(ft),
        distinct_nontrivial=len({common.stable_hash([t["scn"], t["opts"], t["strat"], t["seed"]]) for t, r in zip(ft, fr) if C.nontrivial(r)}),
    )
    res.coverage["rule"] = label_rule
    res.coverage["traces_accepted"] = res.coverage.get("traces_accepted", 0) + st["accepted"]
    other = {}
    for f in findings:
        for p, clauses in f["by_prop"].items():
            if p == prop:
                primary = [c for c in clauses if not c.endswith("(secondary)")] or clauses
                c0 = primary[0]
                res.add_violation(C.signature(prop, c0.replace("(secondary)", "")), f"RunAbs clause {c0} broken by an execution of the real engine", C.witness(f))
            else:
                other.setdefault(p, {})
                for c in clauses:
                    other[p][c] = other[p].get(c, 0) + 1
    if other:
        cur = res.coverage.setdefault("clauses_broken_for_other_properties", {})
        for p, d in other.items():
            for c, k in d.items():
                cur.setdefault(p, {})
                cur[p][c] = cur[p].get(c, 0) + k
        if "machinery" in other:
            raise common.MachineryError(f"trace monitor reported harness-level inconsistencies: {other['machinery']}")
    samples = []
    for t, r in list(zip(ft, fr))[:3]:
        samples.append({"scenario": t["scn"], "options": t["opts"], "strategy": t["strat"], "outcome": r["outcome"],
                        "events": [(e["ev"], e.get("n"), e.get("th")) for e in r["events"]][:24]})
    res.add_samples(samples, cap=4)
    res.coverage["outcomes"] = _count(r["outcome"] for r in fr)
    res.coverage["executions_with_preemption"] = sum(1 for r in fr if r.get("preemptions", 0) > 0)
    return ft, fr, findings


def _count(it):
    d = {}
    for x in it:
        d[x] = d.get(x, 0) + 1
    return d


def replay(prop, w):
    """Re-execute a witness and report whether the same clause breaks again."""
    task = w["witness"]["task"]
    ft, fr, ftr = C.run_tasks([task])
    findings, _ = C.validate(ft, fr, ftr)
    findings += C.value_findings(ft, fr)
    hit = [f for f in findings if prop in f["by_prop"]]
    print(json.dumps({"outcome": fr[0]["outcome"], "clauses": [f["clauses"] for f in findings]}, default=repr)[:3000])
    if hit:
        print(f"VIOLATION property={prop} replay=(reproduced)")
        return 1
    print("not reproduced (schedules depend on object addresses for the 'default' scheduler; rerun the check)")
    return 0


ASSUMPTIONS = [
    "TLC explores Engine.tla / RunAbs.tla exhaustively only for the listed small configurations",
    "the cooperative re-implementation of Lock/Thread (Condition/Event are CPython's own source on top) is faithful to CPython's threading semantics; queue.Queue runs unmodified",
    "preemption happens at line (or bytecode) boundaries of the engine files and at every blocking primitive; free-threaded memory effects below bytecode level are not modelled",
    "call functions are harness functions that log start/end; the dependency relation used by the monitor is computed by the harness, not by uberjob",
]
