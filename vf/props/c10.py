"""C10 — run limits are honoured: max_workers, max_errors and retry."""
from .. import common, engine_campaign as C
from . import engine_common as EC

PROP = "C10"


def run(tier, seed):
    res = common.Result(PROP, tier, seed, "model_checking")
    res.assumptions = list(EC.ASSUMPTIONS)
    if tier == "quick":
        variants = [dict(N=3, maxw=2, configs="ConfigsFull")]
        n, opfrac = 1500, 0.15
        r = EC.run_runabs_mc(res, N=2, maxw=2, attempts="{1, 2, 3}")
    else:
        variants = [dict(N=3, maxw=3, configs="ConfigsFull"), dict(N=4, maxw=2, configs="ConfigsFewFail")]
        n, opfrac = 50000, 0.3
        r = EC.run_runabs_mc(res, N=3, maxw=2, attempts="{1, 2, 3}")
    if not r.ok:
        raise common.MachineryError(f"RunAbs model check failed: {r.violated}\n{r.trace[:2000] or r.out[-1500:]}")
    runs = EC.run_engine_mc(res, variants)
    EC.mc_verdict(res, PROP, runs, ["WorkersBound", "FailBound"])
    tl = [C.gen_tasks("fail", n, seed + 300, opcode_frac=opfrac), C.gen_tasks("retry", n, seed + 301, opcode_frac=opfrac),
          C.gen_tasks("plain", n // 3, seed + 302, opcode_frac=opfrac)]
    tl.append(C.wide_fail_tasks(seed, 500 if tier == "quick" else 15000))
    EC.campaign(res, PROP, tl,
                "executions with in-flight accounting (start/end events of every attempt), failing and flaky calls "
                "(fail on the first j attempts), retry in {1,2,3}, max_errors in {None,0,1,2}, W from 1 to n+1; "
                "non-trivial = distinct execution with a preemptive switch")
    from . import c10_extra

    c10_extra.run(res, tier, seed)
    # the registry path: store operations and modified-time queries under max_workers / stale_check_max_workers / retry
    from . import caching_common as CC

    rule = res.coverage.get("rule", "")
    tasks = CC.gen_tasks(500 if tier == "quick" else 15000, seed + 303, p_fault=0.6, p_dry=0.0, p_render=0.0)
    for t in tasks:
        for st in t["steps"]:
            if st["op"] == "run" and st.get("retry") is None and (st.get("fail_calls") or st.get("fail_stores")):
                st["retry"] = 2 + (t["seed"] % 2)
            if st["op"] == "run":
                st["slow"] = 0.0003 if t["seed"] % 3 == 0 else 0
    CC.campaign(res, PROP, tasks, rule)
    res.coverage["rule"] = rule + ("; plus registry histories with flaky calls / store reads / writes / modified-time queries under retry, "
                                    "stale_check_max_workers and lingering operations (in-flight accounting of calls + store operations and of modified-time queries)")
    return res


def replay(w):
    if "steps" in w.get("witness", {}).get("task", {}):
        from . import caching_common as CC

        return CC.replay(PROP, w)
    if w.get("witness", {}).get("kind"):
        from . import c10_extra

        return c10_extra.replay(w)
    return EC.replay(PROP, w)
