"""C10 — run limits are honoured: max_workers, max_errors and retry."""
from .. import common, engine_campaign as C
from . import engine_common as EC

PROP = "C10"


def run(tier, seed):
    res = common.Result(PROP, tier, seed, "model_checking")
    res.assumptions = list(EC.ASSUMPTIONS)
    if tier == "quick":
        variants = [dict(N=3, maxw=2, configs="ConfigsFull")]
        n, opfrac = 1500, 0.15
        r = EC.run_runabs_mc(res, N=2, maxw=2, attempts="{1, 2, 3}")
    else:
        variants = [dict(N=3, maxw=3, configs="ConfigsFull"), dict(N=4, maxw=2, configs="ConfigsFewFail")]
        n, opfrac = 50000, 0.3
        r = EC.run_runabs_mc(res, N=3, maxw=2, attempts="{1, 2, 3}")
    if not r.ok:
        raise common.MachineryError(f"RunAbs model check failed: {r.violated}\n{r.trace[:2000] or r.out[-1500:]}")
    runs = EC.run_engine_mc(res, variants)
    EC.mc_verdict(res, PROP, runs, ["WorkersBound", "FailBound"])
    tl = [C.gen_tasks("fail", n, seed + 300, opcode_frac=opfrac), C.gen_tasks("retry", n, seed + 301, opcode_frac=opfrac),
          C.gen_tasks("plain", n // 3, seed + 302, opcode_frac=opfrac)]
    EC.campaign(res, PROP, tl,
                "executions with in-flight accounting (start/end events of every attempt), failing and flaky calls "
                "(fail on the first j attempts), retry in {1,2,3}, max_errors in {None,0,1,2}, W from 1 to n+1; "
                "non-trivial = distinct execution with a preemptive switch")
    from . import c10_extra

    c10_extra.run(res, tier, seed)
    return res


def replay(w):
    if w.get("witness", {}).get("kind"):
        from . import c10_extra

        return c10_extra.replay(w)
    return EC.replay(PROP, w)
