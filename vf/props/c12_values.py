"""C12 value driver: sequences write / get_modified_time / read / delete over each store's value
domain, directly and through a MountedStore, str and pathlib paths, several encodings. Every
sequence is recorded (file operations interposed where they are observable) and validated
against the register view of FileStore.tla by FileStoreTrace.tla: read returns the value of
the last complete write (equal and of the same type, compared strictly), the modified time is
None exactly when nothing is stored and never decreases."""
import os
import pathlib
import random

from .. import common, fsx
from . import fs_common as F

LINE_TERMS = ["\n", "\r", "\r\n", "\x0b", "\x0c", "\x1c", "\x1d", "\x1e", "\x85", "\u2028", "\u2029"]
SPECIALS = ["\x00", "\x01", "\x1f", "\x7f", "\x80", "\x9f", "\xa0", "\xff", "\u0100", "\ufeff", "\ufffd", "\uffff",
            "\U00010000", "\U0001f600", "\U0010ffff"]


def mounted_store_class():
    """A concrete MountedStore whose 'remote' side is a bytes buffer with a modified time, written against the public
    MountedStore interface (copy_from_local / copy_to_local); the library's own test helper is used when it is there."""
    try:
        from uberjob._testing.test_mounted_file_store import TestMountedFileStore

        return TestMountedFileStore
    except Exception:
        pass
    import datetime as dt

    from uberjob.stores import MountedStore

    class BufferMountedStore(MountedStore):
        def __init__(self, create_store):
            super().__init__(create_store)
            self.blob = None
            self.mtime = None

        def copy_from_local(self, local_path):
            with open(local_path, "rb") as f:
                self.blob = f.read()
            self.mtime = dt.datetime.utcnow()

        def copy_to_local(self, local_path):
            if self.blob is None:
                raise Exception("nothing stored")
            with open(local_path, "wb") as f:
                f.write(self.blob)

        def get_modified_time(self):
            return self.mtime

    return BufferMountedStore


def strict_eq(a, b):
    """Equal and of the same type, all the way down."""
    if type(a) is not type(b):
        return False
    if isinstance(a, (list, tuple)):
        return len(a) == len(b) and all(strict_eq(x, y) for x, y in zip(a, b))
    if isinstance(a, dict):
        return list(a.keys()) == list(b.keys()) and all(strict_eq(a[k], b[k]) for k in a) and all(type(x) is type(y) for x, y in zip(a, b))
    if isinstance(a, (set, frozenset)):
        return a == b and sorted(map(repr, a)) == sorted(map(repr, b))
    if isinstance(a, float):
        return a == b and str(a) == str(b)  # distinguishes -0.0 from 0.0
    return a == b


def text_values(rng, latin1=False):
    vals = ["", "plain", " leading and trailing ", "line1\nline2\n", "no newline at end"]
    for t in LINE_TERMS:
        if latin1 and ord(t[0]) > 255:
            continue
        vals += [t, "a" + t + "b", t + "x", "x" + t, "a" + t + t + "b"]
    for c in SPECIALS:
        if latin1 and ord(c) > 255:
            continue
        vals += [c, "a" + c + "b", c + "start", "end" + c]
    vals.append("mixed\r\nwindows\rmac\nunix\x0bvt\x0cff\x85nel" + ("" if latin1 else " ls ps"))
    alphabet = [c for c in LINE_TERMS + SPECIALS + list("ab \t") if not latin1 or all(ord(x) < 256 for x in c)]
    for _ in range(25):
        vals.append("".join(rng.choice(alphabet) for _ in range(rng.randint(1, 12))))
    vals.append("long " * 20000)
    return vals


def json_values(rng):
    strs = text_values(rng)[:60]
    vals = [None, True, False, 0, 1, -1, 2**31, 2**63, -(2**63) - 1, 2**70, 1.5, -2.25, 0.0, -0.0, 1e308, 5e-324, 1e16, 0.1,
            "", [], {}, [[]], [{}], {"": ""}, {"a": None}, [None, True, 1, 1.0, "1"], {"k": [1, {"n": [2, [3]]}]},
            {"b": 1, "a": 2}, {"1": 1, "true": True, "null": None}, [1, [2, [3, [4, [5, [6]]]]]], "\ud800 lone surrogate", {" ": " "}]
    vals += strs
    vals += [{s: s} for s in strs[5:25]]
    vals += [[s, s] for s in strs[25:40]]
    vals.append(list(range(3000)))
    vals.append({f"k{i}": [i, str(i)] for i in range(500)})

    def rnd(depth):
        r = rng.random()
        if depth <= 0 or r < 0.4:
            return rng.choice([None, True, False, rng.randint(-10**12, 10**12), rng.random() * 10**rng.randint(-5, 5), rng.choice(strs)])
        if r < 0.7:
            return [rnd(depth - 1) for _ in range(rng.randint(0, 4))]
        return {rng.choice(strs) + str(i): rnd(depth - 1) for i in range(rng.randint(0, 4))}

    vals += [rnd(4) for _ in range(60)]
    return vals


class Point:
    def __init__(self, x, y):
        self.x, self.y = x, y

    def __eq__(self, o):
        return type(o) is Point and (o.x, o.y) == (self.x, self.y)

    def __hash__(self):
        return hash((self.x, self.y))


def pickle_values(rng):
    vals = json_values(rng)[:80]
    vals += [(), (1,), (1, (2, (3,))), {1, 2, 3}, frozenset({"a", None}), b"", b"\x00\xff" * 10, bytearray(b"ba"), 1 + 2j, float("inf"),
             Point(1, "y"), [Point(0, 0), (Point(1, 1),)], {(1, 2): {"nested": (b"x", 2.5)}}, range(5), slice(1, 2, 3), Ellipsis, NotImplemented,
             int, "x" * 100000, list(range(20000)), {i: str(i) for i in range(2000)}]
    return vals


def binary_values(rng):
    vals = [b"", b"\x00", b"\n", b"\r\n", b"\r", bytes(range(256)), b"\xff" * 1000, b"abc" * 100000, b"\x1a", b"\xef\xbb\xbf bom"]
    vals += [bytes(rng.randrange(256) for _ in range(rng.randint(1, 64))) for _ in range(30)]
    return vals


def configs():
    from uberjob import stores as S
    TestMountedFileStore = mounted_store_class()

    out = []
    for pk in ("str", "pathlib"):
        out.append(("JsonFileStore", pk, {}, "json"))
        out.append(("JsonFileStore", pk, {"encoding": "utf-8"}, "json"))
        out.append(("JsonFileStore", pk, {"encoding": "utf-16"}, "json"))
        out.append(("PickleFileStore", pk, {}, "pickle"))
        out.append(("TextFileStore", pk, {}, "text"))
        out.append(("TextFileStore", pk, {"encoding": "utf-8"}, "text"))
        out.append(("TextFileStore", pk, {"encoding": "utf-16"}, "text"))
        out.append(("TextFileStore", pk, {"encoding": "utf-32"}, "text"))
        out.append(("TextFileStore", pk, {"encoding": "latin-1"}, "latin1"))
        out.append(("BinaryFileStore", pk, {}, "binary"))
        out.append(("TouchFileStore", pk, {}, "touch"))
    for kind, dom in (("JsonFileStore", "json"), ("PickleFileStore", "pickle"), ("TextFileStore", "text"), ("BinaryFileStore", "binary"), ("TouchFileStore", "touch")):
        out.append(("Mounted:" + kind, "str", {}, dom))
    return out


def domain(dom, rng):
    if dom == "json":
        return json_values(rng)
    if dom == "pickle":
        return pickle_values(rng)
    if dom == "text":
        return [v for v in text_values(rng) if "\ud800" not in v]
    if dom == "latin1":
        return text_values(rng, latin1=True)
    if dom == "binary":
        return binary_values(rng)
    return [None, None, None]


def run_config(arg):
    """One store configuration over its whole domain; returns traces (chunks of values) and per-value failures."""
    (kind, pk, kw, dom), seed, chunk = arg
    from uberjob import stores as S
    TestMountedFileStore = mounted_store_class()

    rng = random.Random(f"c12-{seed}-{kind}-{kw}")
    values = domain(dom, rng)
    traces, fails, n = [], [], 0
    with common.scratch("vf-c12-") as root:
        for c0 in range(0, len(values), chunk):
            vals = values[c0: c0 + chunk]
            d = os.path.join(root, f"d{c0}")
            os.makedirs(d)
            p = os.path.join(d, "value.dat")
            path = pathlib.Path(p) if pk == "pathlib" else p
            mounted = kind.startswith("Mounted:")
            if mounted:
                cls = getattr(S, kind.split(":")[1])
                store = TestMountedFileStore(lambda lp, cls=cls: cls(lp, **kw))
            else:
                store = getattr(S, kind)(path, **kw)
            events = []
            prev_mt = None
            last_ok = None

            def mtime_event():
                nonlocal prev_mt
                mt = store.get_modified_time()
                dec = mt is not None and prev_mt is not None and mt < prev_mt
                if mt is not None:
                    prev_mt = mt
                events.append({"e": "mtime", "none": mt is None, "dec": dec})

            def read_event(expect):
                try:
                    got = store.read()
                except FileNotFoundError:
                    events.append({"e": "read", "t": "absent"})
                    return
                except Exception as ex:
                    if expect is None:
                        # nothing is stored: any refusal to read is fine (the property speaks about read after write)
                        events.append({"e": "read", "t": "absent"})
                        return
                    events.append({"e": "read", "t": "other"})
                    fails.append({"kind": kind, "path": pk, "kw": kw, "value": repr(expect[1])[:200] if expect else None, "read_error": repr(ex)[:200]})
                    return
                if expect and strict_eq(got, expect[1]):
                    events.append({"e": "read", "t": "new"})
                else:
                    events.append({"e": "read", "t": "other"})
                    fails.append({"kind": kind, "path": pk, "kw": kw, "value": repr(expect[1])[:200] if expect else None, "got": repr(got)[:200]})

            if not mounted and c0 == 0:
                # something else (another store, another tool) left content at the path before the first write
                with open(p, "wb") as fh:
                    fh.write(b"left over by somebody else\n")
                events.append({"e": "regwrite"})
                mtime_event()
            else:
                mtime_event()
                read_event(None)
            for v in vals:
                n += 1
                if mounted:
                    try:
                        store.write(v)
                    except Exception as ex:
                        fails.append({"kind": kind, "path": pk, "kw": kw, "value": repr(v)[:200], "write_error": repr(ex)[:200]})
                        continue
                    events.append({"e": "regwrite"})
                else:
                    T = fsx.Tracer(d, path, snap=False)
                    T.log("begin")
                    exc = None
                    with T:
                        try:
                            store.write(v)
                        except Exception as ex:
                            exc = ex
                    if exc is not None and not any(e["e"] == "raise" or e.get("fail") for e in T.events):
                        T.log("raise")
                    T.log("end", ok=exc is None)
                    events += T.events
                    if exc is not None:
                        # a value of the domain that the store refuses is a C12 failure; the protocol part is still validated
                        fails.append({"kind": kind, "path": pk, "kw": kw, "value": repr(v)[:200], "write_error": repr(exc)[:200]})
                        continue
                last_ok = v
                mtime_event()
                read_event(("v", v))
            # deletion: modified time must become None again
            if not mounted and os.path.exists(p):
                os.remove(p)
                events.append({"e": "regdelete"})
                mtime_event()
                read_event(None)
            traces.append({"events": [F.norm_ev(e) for e in events]})
    return {"traces": traces, "fails": fails, "values": n, "config": [kind, pk, kw, dom]}


def siblings_concurrent(arg):
    """File stores whose paths differ only in the last suffix (report.json / report.txt / report.pkl), written and read
    back by uberjob's worker threads at the same time under the deterministic scheduler: every store returns its own value."""
    seed, pathkind, stratspec = arg
    import uberjob
    from uberjob import stores as S

    from .. import detsched, engine_exec as E

    rng = random.Random(seed)
    strat = E.make_strategy(stratspec, rng)
    files = detsched.ENGINE_FILES + ("uberjob/stores/",)
    sched = detsched.Scheduler(strat, preempt_files=files, opcode=False, step_budget=400000)
    res = {"fails": [], "preemptions": 0}
    with common.scratch("vf-c12s-") as d:
        mk = (lambda n: pathlib.Path(os.path.join(d, n))) if pathkind == "pathlib" else (lambda n: os.path.join(d, n))
        stores = [S.JsonFileStore(mk("report.json")), S.TextFileStore(mk("report.txt")), S.PickleFileStore(mk("report.pkl")), S.BinaryFileStore(mk("report.bin"))]
        values = [{"owner": "json"}, "owner text\n", ("owner", "pickle"), b"owner bin"]

        def body():
            plan = uberjob.Plan()
            reg = uberjob.Registry()
            outs = []
            for i in range(len(stores)):
                c = plan.call(lambda i=i: values[i])
                reg.add(c, stores[i])
                outs.append(c)
            return uberjob.run(plan, registry=reg, output=outs, max_workers=len(stores), progress=None, scheduler=rng.choice([None, "random"]))

        out = sched.run(body)
        res["preemptions"] = sched.preemptions
        if out["dead"]:
            res["_poisoned"] = True
        if out["outcome"] != "returned":
            res["fails"].append({"what": "run_failed", "detail": (out["outcome"], repr(out["exc"])[:300])})
            return res
        for i, st in enumerate(stores):
            if not strict_eq(out["value"][i], values[i]):
                res["fails"].append({"what": "read_back_other_value", "detail": f"{st!r} returned {out['value'][i]!r:.120}, wrote {values[i]!r:.120}"})
            elif st.get_modified_time() is None:
                res["fails"].append({"what": "mtime_none_after_write", "detail": repr(st)})
    return res


def mounted_concurrent(arg):
    """Several MountedStores written and read back by uberjob's worker threads at the same time, under the
    deterministic scheduler with preemption at every line of the mounted-store code: every store must
    return what was written to *it*."""
    seed, nstores, stratspec = arg
    import uberjob
    from uberjob import stores as S
    TestMountedFileStore = mounted_store_class()

    from .. import detsched, engine_exec as E

    rng = random.Random(seed)
    strat = E.make_strategy(stratspec, rng)
    files = detsched.ENGINE_FILES + ("uberjob/stores/", "uberjob/_testing/test_mounted_file_store.py")
    sched = detsched.Scheduler(strat, preempt_files=files, opcode=False, step_budget=400000)
    kinds = [S.JsonFileStore, S.PickleFileStore, S.TextFileStore, S.BinaryFileStore]
    stores, values = [], []
    for i in range(nstores):
        cls = kinds[(seed + i) % len(kinds)]
        stores.append(TestMountedFileStore(lambda lp, cls=cls: cls(lp)))
        base = f"value-of-store-{i}-" + "z" * (50 * i)
        values.append({"owner": i, "text": base} if cls is S.JsonFileStore else ("owner", i, base) if cls is S.PickleFileStore else base if cls is S.TextFileStore else base.encode())

    def body():
        plan = uberjob.Plan()
        reg = uberjob.Registry()
        outs = []
        for i in range(nstores):
            c = plan.call(lambda i=i: values[i])
            reg.add(c, stores[i])
            outs.append(c)
        return uberjob.run(plan, registry=reg, output=outs, max_workers=nstores, progress=None, scheduler=rng.choice([None, "random"]))

    out = sched.run(body)
    res = {"fails": [], "preemptions": sched.preemptions}
    if out["dead"]:
        res["_poisoned"] = True
    if out["outcome"] != "returned":
        res["fails"].append({"what": "run_failed", "detail": (out["outcome"], repr(out["exc"])[:300])})
        return res
    for i in range(nstores):
        if not strict_eq(out["value"][i], values[i]):
            res["fails"].append({"what": "read_back_other_value", "detail": f"store {i} returned {out['value'][i]!r:.120}, wrote {values[i]!r:.120}"})
        else:
            try:
                again = stores[i].read()
            except Exception as ex:
                res["fails"].append({"what": "read_failed", "detail": f"store {i}: {ex!r:.200}"})
                continue
            if not strict_eq(again, values[i]):
                res["fails"].append({"what": "read_back_other_value", "detail": f"store {i} holds {again!r:.120}, wrote {values[i]!r:.120}"})
    return res
