"""Histories on the real library: generate, execute on a Universe (vf/cscen.py), record the
event trace that CachingTrace.tla validates."""
import os
import random
import threading

from . import cscen as CS

FAIL_EVENTS = {"endfail", "readfail", "writefail", "mtimefail", "cut"}

DEFAULTS = {"k": "", "n": 0, "v": CS.NIL, "sv": CS.NIL, "r": 0, "f": 0, "o": [], "dry": False, "ok": False, "same": True,
            "ops": [], "anc": [], "tpok": True, "outin": True, "known": True}


def normalise_event(e):
    """Every event carries every field the monitor may look at (TLC records have no optional fields)."""
    out = dict(DEFAULTS)
    out.update(e)
    if out["e"] == "rend":
        out["v"] = e.get("v", [])
    if out["e"] != "undo":
        out["k"] = ""
    for k in ("missing", "mode"):
        out.pop(k, None)
    return out


# --------------------------------------------------------------------------------------
# history generation


def gen_history(rng, scn, length=6, p_fault=0.35, p_dry=0.12, p_render=0.08, maxW=4):
    N = scn["N"]
    pure = [i for i in range(1, N + 1) if scn["reg"][i - 1] == "src" and not scn["wof"][i - 1]]
    regd = [i for i in range(1, N + 1) if scn["reg"][i - 1] != "none"]
    calls = [i for i in range(1, N + 1) if scn["kind"][i - 1] == "call" and scn["reg"][i - 1] != "src"]
    outs = CS.default_outs(scn)
    steps = []
    # always start with a run so that later steps meet populated stores
    first = True
    for _ in range(length):
        r = rng.random()
        if not first and r < 0.15 and pure:
            steps.append({"op": "upd", "n": rng.choice(pure)})
            continue
        if not first and r < 0.30 and regd:
            steps.append({"op": "del", "n": rng.choice(regd)})
            continue
        if not first and r < 0.30 + p_render:
            steps.append({"op": "render", "level": rng.choice([None, 0, 1, 2]), "with_registry": rng.random() < 0.7})
            continue
        first = False
        st = {
            "op": "dry" if rng.random() < p_dry else "run",
            "fresh": rng.choice(["none", "none", "now", "rand", "rand"]),
            "out": list(rng.choice(outs)),
            "W": rng.randint(1, maxW),
            "sched": rng.choice([None, "default", "random"]),
            "maxerr": rng.choice([0, 0, 0, 1, 2, None]),
            "single_as_node": rng.random() < 0.5,
            "fresh_r": rng.random(),
            "obs": rng.choice([None, "rec", "rec", "composite", "shared"]),
            "tp": rng.choice([False, False, False, True, "copy"]),
            "retry": rng.choice([None, None, None, 2, 3]),
            "scw": rng.choice([None, None, 1, 2]),
            "slow": rng.choice([0, 0, 0, 0.0003]),
        }
        if st["op"] == "run" and rng.random() < p_fault:
            kind = rng.choice(["cut", "cut", "call", "store"])
            if kind == "cut":
                st["fault"] = {"at": rng.randint(1, 3 * N + 2), "when": rng.choice(["before", "after"]),
                               "mode": rng.choice(["raise", "raise", "dead"])}
            elif kind == "call" and calls:
                r_ = st["retry"] or 1
                st["fail_calls"] = {str(c): rng.randint(1, r_) for c in rng.sample(calls, rng.randint(1, min(2, len(calls))))}
            elif regd:
                r_ = st["retry"] or 1
                st["fail_stores"] = [[rng.choice(["read", "write", "write", "mtime"]), rng.choice(regd), rng.randint(1, r_)]]
        steps.append(st)
    # end with a fault-free run: the property is about the next *successful* run
    steps.append({"op": "run", "fresh": "none", "out": list(rng.choice(outs)), "W": rng.randint(1, maxW),
                  "sched": rng.choice([None, "random"]), "maxerr": 0, "single_as_node": False, "fresh_r": 0.0})
    steps.append({"op": "run", "fresh": "none", "out": [], "W": 1, "sched": None, "maxerr": 0,
                  "single_as_node": False, "fresh_r": 0.0})
    return steps


# --------------------------------------------------------------------------------------
# execution


def _enc(x):
    return CS.enc(x)


def _fresh_rank(U, st):
    if st["fresh"] == "none":
        return 0
    if st["fresh"] == "now":
        return U.clock
    return int(st.get("fresh_r", 0.5) * (U.clock + 1)) % (U.clock + 1)


def project_physical(U, phys):
    """Executable operations of a physical plan returned by dry_run and, per operation, the
    executable operations among its ancestors."""
    import networkx as nx

    from uberjob.graph import Call, Literal, PositionalArg

    g = phys.graph
    opof = {}
    for nd in g.nodes():
        if type(nd) is Literal:
            continue
        if type(nd) is not Call:
            opof[nd] = ["other", 0]
            continue
        if nd.fn is _tp_marker:
            continue  # the call a copy-returning transform_physical added: not part of the registry transformation
        c = getattr(nd.fn, "_vf_call", None)
        if c is not None:
            opof[nd] = ["call", c]
            continue
        name = getattr(nd.fn, "__name__", "")
        qn = getattr(nd.fn, "__qualname__", "")
        if "TermStore" in qn and name in ("read", "write"):
            st = None
            for u, _v, k in g.in_edges(nd, keys=True):
                if type(k) is PositionalArg and k.index == 0 and type(u) is Literal:
                    st = u.value
            if st is None:
                st = getattr(nd.fn, "__self__", None)  # a bound method of the store
            opof[nd] = [name, st.n] if hasattr(st, "n") else ["other", 0]
            continue
        mod = getattr(nd.fn, "__module__", "")
        if mod.startswith("uberjob") and name.startswith("gather"):
            continue  # structural: passes order through, executes nothing observable
        if mod.startswith("uberjob") and name == "source":
            opof[nd] = ["call", U.id_of_node.get(nd, 0)]
            continue
        opof[nd] = ["other", 0]
    ops, anc = [], []
    for nd, op in opof.items():
        ops.append(op)
        anc.append(sorted(opof[a] for a in nx.ancestors(g, nd) if a in opof))
    return ops, anc


def _tp_marker():
    return None


def make_observer(sink, lock):
    from uberjob.progress import ProgressObserver

    class Rec(ProgressObserver):
        def __enter__(self):
            with lock:
                sink.append(("enter", None, None, 0))

        def __exit__(self, et, ev, tb):
            with lock:
                sink.append(("exit", None, None, 0))

        def increment_total(self, *, section, scope, amount):
            with lock:
                sink.append(("total", section, scope, amount))

        def increment_running(self, *, section, scope):
            with lock:
                sink.append(("running", section, scope, 0))

        def increment_completed(self, *, section, scope):
            with lock:
                sink.append(("completed", section, scope, 0))

        def increment_failed(self, *, section, scope, exception):
            with lock:
                sink.append(("failed", section, scope, 0))

    return Rec()


def progress_trace(U, scn, notes, notes2, run_events, ok, clean, ngather, nextra=0):
    """The ProgressTrace.tla record of one run: notifications with scopes numbered per (section,
    scope tuple), and the harness's account of what executed."""
    ids = {}

    def sid(sec, scope):
        return ids.setdefault((sec, scope), len(ids) + 1)

    ev = []
    for kind, sec, scope, amt in notes:
        if kind in ("enter", "exit"):
            ev.append({"e": kind, "sec": "", "sc": 0, "amt": 0, "clean": clean})
        else:
            ev.append({"e": kind, "sec": sec, "sc": sid(sec, scope), "amt": amt, "clean": clean})
    starts = {}
    for e in run_events:
        if e["e"] == "start":
            starts[e["n"]] = 1  # a call counts once, however many attempts retry made
    scopes = scn.get("scopes") or [[]] * scn["N"]
    per_label = {}
    for n, c in starts.items():
        lab = (*scopes[n - 1], f"vfcscen.f{n}")
        per_label[lab] = per_label.get(lab, 0) + c
    exp = [[sid("run", lab), c] for lab, c in sorted(per_label.items(), key=repr)]
    nops = len(starts) + len({(e["e"], e["n"]) for e in run_events if e["e"] in ("read", "write")})
    ncalls = sum(1 for k in scn["kind"] if k == "call")
    ev.append({"e": "summary", "sec": "", "sc": 0, "amt": 0, "clean": clean, "ok": ok, "exp": exp, "runcalls": nops + ngather + nextra,
               "stalecalls": ncalls + ngather, "members_equal": notes2 is None or notes2 == notes})
    for e in ev:
        e.setdefault("ok", False)
        e.setdefault("exp", [])
        e.setdefault("runcalls", 0)
        e.setdefault("stalecalls", 0)
        e.setdefault("members_equal", True)
    if len(ids) > 48:
        return None
    return {"events": ev}


TZ_ZONES = ["UTC", "America/New_York", "Asia/Kolkata", "Europe/London", "Australia/Lord_Howe", "Pacific/Kiritimati",
            "America/St_Johns", "Asia/Tokyo", "EST5", "Pacific/Pago_Pago"]


_FS_OK = None


def _fs_fine_grained():
    """Do files written 3 ms apart in the scratch directory get different modified times (at microsecond resolution)?"""
    global _FS_OK
    if _FS_OK is None:
        import time

        from . import common

        with common.scratch("vf-fsgran-") as d:
            p = os.path.join(d, "probe")
            ok = True
            last = None
            for i in range(4):
                with open(p, "w") as f:
                    f.write(str(i))
                t = round(os.path.getmtime(p), 6)
                if last is not None and t <= last:
                    ok = False
                last = t
                time.sleep(0.003)
            _FS_OK = ok
    return _FS_OK


def gen_files(rng, scn):
    """File mode: which stores are the library's own file stores (the others stay in memory but report real instants)."""
    b = []
    for i in range(scn["N"]):
        has_store = scn["reg"][i] != "none" or any(sd == i + 1 for sd in scn["side"])
        b.append(rng.choice(["json", "json", "pickle", "text", None]) if has_store else None)
    return {"backing": b, "gap": 0.003, "stamp": rng.random() < 0.5}


def gen_tzmix(rng, N):
    """How the instants of a history are written down: process time zone, one representation per store, one for fresh_time."""
    kinds = ["naive", "naive", "utc", "off"]
    return {"tz": rng.choice(TZ_ZONES), "kinds": [rng.choice(kinds) for _ in range(N)], "fresh": rng.choice(kinds),
            "off": rng.choice([-720, -480, -210, 0, 330, 345, 840]),
            "base": rng.choice([947894400, 947894400, 947894400, 4103740800])}


def run_history(task):
    """task: {scn, steps, seed[, tzmix]}. Returns {"trace": {scn, events}, "info": {...}}"""
    if task.get("files") and "root" not in task["files"] and not _fs_fine_grained():
        # the scratch file system does not distinguish instants 3 ms apart: file mode would tie modified times
        task = {k: v for k, v in task.items() if k != "files"}
    if task.get("files") and "root" not in task["files"]:
        from . import common

        with common.scratch("vf-cfiles-") as root:
            t2 = dict(task)
            t2["files"] = dict(task["files"], root=root)
            t2["scn"] = dict(task["scn"], files=t2["files"])
            return run_history(t2)
    mix = task.get("tzmix")
    if not mix:
        return _run_history(task)
    import time as _time

    old = os.environ.get("TZ")
    os.environ["TZ"] = mix["tz"]
    _time.tzset()
    try:
        return _run_history(task)
    finally:
        if old is None:
            os.environ.pop("TZ", None)
        else:
            os.environ["TZ"] = old
        _time.tzset()


def _run_history(task):
    import uberjob

    scn = task["scn"]
    try:
        from uberjob._util import validation as _val

        _val.try_get_signature.cache_clear()  # see engine_exec.execute
    except Exception:
        pass
    U = CS.Universe(scn)
    U.tzmix = task.get("tzmix")
    U.id_of_node = {nd: i for i, nd in U.node.items()}
    for i, nd in U.node.items():
        if type(nd).__name__ == "Call" and hasattr(nd.fn, "__name__") and nd.fn.__name__ == f"f{i}":
            nd.fn._vf_call = i
    rng = random.Random(task.get("seed", 0))
    random.seed(task.get("seed", 0) ^ 0xC0FFEE)
    ptraces = []
    info = {"runs": 0, "ok_runs": 0, "failed_runs": 0, "cuts_hit": 0, "unexpected": [], "dry": 0, "renders": 0,
            "threads_leaked": 0, "max_inflight_over": [], "c10": [], "retry_runs": 0}
    shared = {"cur": ([], []), "lock": threading.Lock()}
    for st in task["steps"]:
        op = st["op"]
        if op == "upd":
            U.update_source(st["n"])
            continue
        if op == "del":
            if U.can_delete(st["n"]):
                U.delete(st["n"])
            continue
        if op == "render":
            d0 = U.digest()
            try:
                kw = {"format": "raw"}
                if st.get("with_registry"):
                    kw["registry"] = U.registry
                if st.get("level") is not None:
                    kw["level"] = st["level"]
                uberjob.render(U.plan, **kw)
                info["renders"] += 1
            except Exception as ex:  # rendering back end problems are not this check's business
                info.setdefault("render_errors", []).append(repr(ex)[:200])
            U.log("digest", same=(d0 == U.digest()))
            continue
        f = _fresh_rank(U, st)
        out = st["out"]
        single = st.get("single_as_node") and len(out) == 1
        kw = dict(
            registry=U.registry,
            output=U.output_arg(out, single),
            fresh_time=U.time_of(f) if f else None,
            max_workers=st.get("W", 1),
            max_errors=st.get("maxerr", 0),
            scheduler=st.get("sched"),
            progress=None,
        )
        if st.get("retry"):
            kw["retry"] = st["retry"]
        if st.get("scw"):
            kw["stale_check_max_workers"] = st["scw"]
        U.slow = st.get("slow") or 0.0
        notes, notes2 = [], None
        if st.get("obs"):
            from uberjob.progress import Progress

            olock = threading.Lock()
            kw["progress"] = Progress(lambda: make_observer(notes, olock))
            if st["obs"] == "composite":
                notes2 = []
                kw["progress"] = (Progress(lambda: make_observer(notes, olock)), Progress(lambda: make_observer(notes2, olock)))
            elif st["obs"] == "shared":
                # one composite Progress for the whole history (a Progress is a reusable factory of single-use
                # observers): every run must give every member an observer of its own
                notes2 = []
                if "progress" not in shared:
                    from uberjob.progress import composite_progress

                    shared["progress"] = composite_progress(
                        Progress(lambda: make_observer(shared["cur"][0], shared["lock"])),
                        Progress(lambda: make_observer(shared["cur"][1], shared["lock"])))
                shared["cur"] = (notes, notes2)
                shared["lock"] = olock
                kw["progress"] = shared["progress"]
        tp_calls = []
        if st.get("tp"):
            def tp(plan_, node_):
                tp_calls.append(1)
                if st["tp"] == "copy":
                    # a transformation may return a different Plan object with different calls in it
                    plan_ = plan_.copy()
                    with plan_.scope("transformed"):
                        plan_.call(_tp_marker)
                plan_.graph.graph["vf_tp"] = True
                return plan_, node_

            kw["transform_physical"] = tp
        ngather = (1 if (out and not single) else 0)
        nextra = 1 if st.get("tp") == "copy" else 0  # the call the transformation added to the physical plan
        nthreads0 = threading.active_count()
        d0 = U.digest()
        if op == "dry":
            U.begin_run()
            U.log("begin", f=f, o=out, dry=True)
            info["dry"] += 1
            try:
                res_ = uberjob.run(U.plan, dry_run=True, **kw)
            except BaseException as ex:
                info["unexpected"].append({"where": "dry_run", "exc": repr(ex)[:300]})
                U.log("rend", ok=False)
                U.log("digest", same=(d0 == U.digest()))
                continue
            if not (isinstance(res_, tuple) and len(res_) == 2 and isinstance(res_[0], uberjob.Plan)):
                # a dry run returns (physical plan, output node); anything else is not a dry run's result
                U.log("dry", known=False, ops=[], anc=[], outin=False, tpok=True)
                U.log("digest", same=(d0 == U.digest()))
                U.log("dryend")
                U.log("rend", ok=False)
                continue
            phys, outnode = res_
            ops, anc = project_physical(U, phys)
            # (if the returned plan contains calls this harness cannot interpret - the transformation builds its read /
            # write nodes differently - its *structure* is not judged; executing it, below, still is)
            known = all(op[0] != "other" for op in ops)
            if not known:
                ops, anc = [], []
            U.log("dry", known=known, ops=ops, anc=anc, outin=(outnode is None or outnode in phys.graph), tpok=(not st.get("tp")) or bool(phys.graph.graph.get("vf_tp")))
            if st.get("obs"):
                pt = progress_trace(U, scn, notes, notes2, [], False, True, ngather)
                if pt:
                    ptraces.append(pt)
            U.log("digest", same=(d0 == U.digest()))
            U.log("dryend")
            # executing the returned plan by itself must behave as the real run would have
            allnodes = list(phys.graph.nodes())
            try:
                res = uberjob.run(phys, output=(outnode, allnodes), max_workers=st.get("W", 1),
                                  scheduler=st.get("sched"), progress=None)
                val = res[0]
                v = [] if not out else [_enc(val)] if single else [_enc(x) for x in val] if isinstance(val, list) else [_enc(val)]
                U.log("rend", ok=True, v=v)
                info["ok_runs"] += 1
            except BaseException as ex:
                injected = any(e["e"] == "readfail" for e in U.events[-200:] if True)
                U.log("rend", ok=False)
                if not _expected_failure(U):
                    info["unexpected"].append({"where": "dry_plan_execution", "exc": repr(ex)[:300]})
            continue
        # a real run
        fault = st.get("fault")
        U.begin_run(
            fault=dict(fault) if fault else None,
            fail_calls={int(k): v for k, v in (st.get("fail_calls") or {}).items()},
            fail_stores={(k, n): c for k, n, c in (st.get("fail_stores") or [])},
        )
        mark = len(U.events)
        U.log("begin", f=f, o=out, dry=False)
        info["runs"] += 1
        try:
            val = uberjob.run(U.plan, **kw)
            ok = True
        except BaseException as ex:
            ok = False
            exc = ex
        if ok:
            v = [] if not out else [_enc(val)] if single else ([_enc(x) for x in val] if isinstance(val, list) else [_enc(val)])
            U.log("rend", ok=True, v=v)
            info["ok_runs"] += 1
        else:
            U.log("rend", ok=False)
            info["failed_runs"] += 1
            if not any(e["e"] in FAIL_EVENTS for e in U.events[mark:]):
                info["unexpected"].append({"where": "run", "exc": repr(exc)[:300], "step": st})
        if st.get("obs"):
            pt = progress_trace(U, scn, notes, notes2, U.events[mark:], ok, not U.dead, ngather, nextra)
            if pt:
                ptraces.append(pt)
        if st.get("tp") and ok and len(tp_calls) != 1:
            info["unexpected"].append({"where": "transform_physical", "exc": f"called {len(tp_calls)} times"})
        # C10 on the registry path: limits on what executes at once, attempts, eventual success, last exception
        retry_n = st.get("retry") or 1
        W_ = st.get("W", 1)
        if U.max_all_inflight > W_:
            info["c10"].append(["too_many_inflight", f"{U.max_all_inflight} calls / store operations at once with max_workers={W_}"])
        if U.max_mt_inflight > (st.get("scw") or W_):
            info["c10"].append(["too_many_mtime_queries_inflight", f"{U.max_mt_inflight} modified-time queries at once with stale_check_max_workers={st.get('scw') or W_}"])
        over = {k: v for k, v in U.attempts.items() if v > retry_n}
        if over:
            info["c10"].append(["attempts_exceed_retry", f"{sorted(over.items())[:3]} with retry={retry_n}"])
        recoverable = (not fault and all(j < retry_n for j in (st.get("fail_calls") or {}).values())
                       and all(c < retry_n for _k, _n, c in (st.get("fail_stores") or [])))
        missing_src = any(e["e"] == "readfail" and e.get("missing") for e in U.events[mark:])
        if recoverable and not ok and not missing_src and (st.get("fail_calls") or st.get("fail_stores")):
            info["c10"].append(["eventual_success_not_honoured", f"every injected failure was recoverable within retry={retry_n} but run raised {exc!r:.200}"])
        if not ok and retry_n > 1:
            cause = getattr(exc, "__cause__", None)
            if any(cause is x for x in U.injected) and not any(cause is x for x in U.last_exc.values()):
                info["c10"].append(["reported_exception_not_last_attempt", f"cause {cause!r:.200} is not the exception of the last attempt"])
        info["retry_runs"] += 1 if retry_n > 1 else 0
        if U.cut_hit:
            info["cuts_hit"] += 1
        if U.max_inflight > st.get("W", 1):
            info["max_inflight_over"].append([U.max_inflight, st.get("W", 1)])
        U.log("digest", same=(d0 == U.digest()))
        if threading.active_count() > nthreads0:
            info["threads_leaked"] += 1
    events = [normalise_event(e) for e in U.events]
    return {"trace": {"scn": CS.for_trace(scn), "events": events}, "info": info, "ptraces": ptraces}


def _expected_failure(U):
    # failures of the run in progress: anything logged since the last begin / dryend
    for e in reversed(U.events):
        if e["e"] in ("begin", "dryend"):
            return False
        if e["e"] in FAIL_EVENTS:
            return True
    return False
