"""Interposition on the primitives the library reaches (threading, time, file operations) that does
not depend on *how* a module of the library names them: `import threading` / `threading.Lock()` and
`from threading import Lock` must both end up with the harness's object. Every module-level global of
every loaded module of the library (and of a few named standard-library modules) that *is* one of the
originals is rebound to its replacement for the duration, and restored afterwards."""
import sys


def target_modules(prefixes=("uberjob",), extra=()):
    out = []
    for name, mod in list(sys.modules.items()):
        if mod is None:
            continue
        if name in extra or any(name == p or name.startswith(p + ".") for p in prefixes):
            out.append(mod)
    return out


def swap_globals(pairs, prefixes=("uberjob",), extra=()):
    """pairs: iterable of (original, replacement). Returns the undo list for `restore`."""
    by_id = {}
    for orig, repl in pairs:
        by_id[id(orig)] = (orig, repl)
    saved = []
    for mod in target_modules(prefixes, extra):
        d = getattr(mod, "__dict__", None)
        if not d:
            continue
        for k, v in list(d.items()):
            hit = by_id.get(id(v))
            if hit is not None and hit[0] is v:
                saved.append((d, k, v))
                d[k] = hit[1]
    return saved


def restore(saved):
    for d, k, v in reversed(saved):
        d[k] = v
