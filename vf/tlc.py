"""Driving TLC: exhaustive runs of MC configurations, simulation, batch trace validation."""
import json
import os
import re
import shutil
import subprocess
import time

from .common import SPEC, MachineryError, scratch_root

JAR = "/opt/veriftools/tla/tla2tools.jar"
DEPS = "/opt/veriftools/tla/CommunityModules-deps.jar"


class TlcRun:
    def __init__(self):
        self.ok = False  # finished with no error
        self.states = 0  # states generated
        self.distinct = 0
        self.depth = 0
        self.violated = None  # name of violated invariant / property, or "deadlock"
        self.trace = ""  # counterexample text
        self.out = ""
        self.wall = 0.0
        self.coverage = {}  # action name -> (distinct?, count)
        self.printed = []  # PrintT output lines


_RE_STATES = re.compile(r"(\d+) states generated, (\d+) distinct states found")
_RE_DEPTH = re.compile(r"The depth of the complete state graph search is (\d+)")
_RE_INV = re.compile(r"Error: Invariant (\S+) is violated")
_RE_PROP = re.compile(r"Error: (?:Action|Temporal) propert(?:y|ies) (\S*)\s*(?:is|were) violated")
_RE_COV = re.compile(r"^<(\w+) line \d+, col \d+ to line \d+, col \d+ of module (\w+)>: (\d+):(\d+)", re.M)


def run_tlc(
    module,
    cfg=None,
    *,
    workers=None,
    timeout=600,
    simulate=None,
    depth=None,
    seed=None,
    coverage=False,
    env=None,
    extra=None,
    deadlock=True,
    specdir=SPEC,
    jvm=None,
    dfs=False,
):
    """Run TLC on spec/<module>.tla with config <cfg> (default <module>.cfg)."""
    r = TlcRun()
    meta = os.path.join(
        scratch_root(), f"tlc-meta-{os.getpid()}-{time.time_ns()}"
    )
    cmd = ["java", "-XX:+UseParallelGC"]
    if dfs:
        cmd.append("-Dtlc2.tool.queue.IStateQueue=StateDeque")
    if jvm:
        cmd += jvm
    cmd += ["-cp", f"{JAR}:{DEPS}", "tlc2.TLC"]
    cmd += ["-metadir", meta, "-noGenerateSpecTE"]
    cmd += ["-workers", str(workers or "auto")]
    if cfg:
        cmd += ["-config", cfg]
    if not deadlock:
        cmd += ["-deadlock"]
    if simulate:
        cmd += ["-simulate", simulate]
    if depth:
        cmd += ["-depth", str(depth)]
    if seed is not None:
        cmd += ["-seed", str(seed)]
    if coverage:
        cmd += ["-coverage", "1"]
    if extra:
        cmd += extra
    cmd.append(module)
    e = dict(os.environ)
    e.pop("JAVA_TOOL_OPTIONS", None)
    if env:
        e.update(env)
    t0 = time.time()
    try:
        p = subprocess.run(
            cmd, cwd=specdir, env=e, capture_output=True, text=True, timeout=timeout
        )
        r.out = p.stdout + p.stderr
        rc = p.returncode
    except subprocess.TimeoutExpired as ex:
        r.out = (ex.stdout or b"").decode(errors="replace") if isinstance(ex.stdout, bytes) else (ex.stdout or "")
        r.out += "\nTLC-TIMEOUT"
        rc = -9
    finally:
        shutil.rmtree(meta, ignore_errors=True)
    r.wall = time.time() - t0
    r.rc = rc
    m = None
    for m in _RE_STATES.finditer(r.out):
        pass
    if m:
        r.states, r.distinct = int(m.group(1)), int(m.group(2))
    if not r.states:
        ms = re.search(r"The number of states generated: (\d+)", r.out)
        if ms:
            r.states = int(ms.group(1))
            r.distinct = r.distinct or r.states
    m = _RE_DEPTH.search(r.out)
    if m:
        r.depth = int(m.group(1))
    m = _RE_INV.search(r.out)
    if m:
        r.violated = m.group(1)
    elif "Error: Deadlock reached" in r.out:
        r.violated = "deadlock"
    elif "Temporal properties were violated" in r.out:
        r.violated = "temporal"
    elif re.search(r"Error: Action property (\S+)", r.out):
        r.violated = re.search(r"Error: Action property (\S+)", r.out).group(1)
    elif "is violated" in r.out and "Error:" in r.out:
        r.violated = "property"
    if r.violated:
        i = r.out.find("Error:")
        r.trace = r.out[i : i + 20000]
    for m in _RE_COV.finditer(r.out):
        r.coverage[m.group(1)] = (int(m.group(3)), int(m.group(4)))
    r.ok = (
        rc == 0
        and r.violated is None
        and "Model checking completed. No error has been found." in r.out
        or (simulate is not None and rc in (0,) and r.violated is None)
    )
    return r


def require_ok(r: TlcRun, what):
    if not r.ok:
        tail = r.out[-3000:]
        raise MachineryError(f"TLC failed on {what} (rc={r.rc}, violated={r.violated}):\n{tail}")
    return r


def tla_str(s):
    return '"' + str(s).replace("\\", "\\\\").replace('"', '\\"') + '"'


def tla_value(v):
    """Python -> TLA+ expression text (ints, bools, strs, lists=sequences, sets, dicts=records/functions)."""
    if isinstance(v, bool):
        return "TRUE" if v else "FALSE"
    if isinstance(v, int):
        return str(v)
    if isinstance(v, str):
        return tla_str(v)
    if isinstance(v, (list, tuple)):
        return "<<" + ", ".join(tla_value(x) for x in v) + ">>"
    if isinstance(v, (set, frozenset)):
        return "{" + ", ".join(sorted(tla_value(x) for x in v)) + "}"
    if isinstance(v, dict):
        if not v:
            return "<<>>"
        if all(isinstance(k, str) and re.fullmatch(r"[A-Za-z_]\w*", k) for k in v):
            return "[" + ", ".join(f"{k} |-> {tla_value(x)}" for k, x in v.items()) + "]"
        return "(" + " @@ ".join(f"({tla_value(k)} :> {tla_value(x)})" for k, x in v.items()) + ")"
    raise TypeError(f"cannot render {v!r} as TLA+")


def parse_printed_set(out, tag):
    """Find a PrintT(<<"TAG", {...}>>) line and return the integers inside the set."""
    m = re.search(r'<<\s*"' + re.escape(tag) + r'"\s*,\s*\{([^}]*)\}\s*>>', out)
    if not m:
        m2 = re.search(r'<<\s*"' + re.escape(tag) + r'"\s*,\s*(\d+)\.\.(\d+)\s*>>', out)
        if m2:
            return set(range(int(m2.group(1)), int(m2.group(2)) + 1))
        return None
    body = m.group(1).strip()
    if not body:
        return set()
    return {int(x) for x in re.findall(r"-?\d+", body)}


_RE_REJ = re.compile(r'<<\s*"REJ"\s*,\s*(\d+)\s*,\s*(\d+)\s*,\s*"([^"]*)"\s*>>')


def validate_traces(trace_module, cfg, traces, *, timeout=900, extra_env=None):
    """Batch trace validation with a total monitor specification. `traces` is a list of JSON-able
    records (one per trace), written as NDJSON; the trace spec picks one per initial state,
    consumes its events and prints <<"REJ", tid, event index, clause>> for every broken clause and
    finally <<"ACCEPTED", {tids}>>. Returns (accepted: set, rejected: {tid: [(l, clause)]}, run),
    tids 1-based."""
    if not traces:
        return set(), {}, None
    path = os.path.join(scratch_root(), f"traces-{os.getpid()}-{time.time_ns()}.ndjson")
    with open(path, "w") as f:
        for t in traces:
            f.write(json.dumps(t, separators=(",", ":")) + "\n")
    try:
        env = {"TRACE_FILE": path}
        if extra_env:
            env.update(extra_env)
        r = run_tlc(trace_module, cfg, workers=1, timeout=timeout, env=env, deadlock=False)
    finally:
        os.remove(path)
    acc = parse_printed_set(r.out, "ACCEPTED")
    if acc is None or r.rc != 0:
        raise MachineryError(f"trace validation run failed (rc={r.rc}):\n{r.out[-4000:]}")
    rej = {}
    for m in _RE_REJ.finditer(r.out):
        rej.setdefault(int(m.group(1)), []).append((int(m.group(2)), m.group(3)))
    for k in rej:
        rej[k].sort()
    all_ids = set(range(1, len(traces) + 1))
    if acc | set(rej) != all_ids or acc & set(rej):
        raise MachineryError(
            f"trace validation lost traces: {len(acc)} accepted, {len(rej)} rejected of {len(traces)}\n{r.out[-3000:]}"
        )
    return acc, rej, r
