"""One controlled execution of the real `uberjob.run` on a scenario under the deterministic
scheduler, and its projection to an observable trace record for RunAbsTrace.tla."""
import gc
import random
import weakref

from . import detsched, scen as S


class Ctx:
    def __init__(self, sched):
        self.sched = sched
        self.exc_ids = []
        self.on_start = None
        self.on_end = None

    def log(self, ev, **kw):
        return self.sched.log(ev, **kw)

    def in_call(self):
        self.sched.point("call", None)


def make_strategy(spec, rng):
    k = spec.get("kind", "random")
    if k == "random":
        st = detsched.RandomStrategy(rng, spec.get("p", 0.1))
    elif k == "pct":
        st = detsched.PCTStrategy(rng, spec.get("depth", 2), spec.get("est_steps", 1500))
    elif k == "preempt":
        st = detsched.PreemptStrategy(
            {int(a): b for a, b in spec.get("preempts", [])},
            {int(a): b for a, b in spec.get("blocks", [])},
            yield_in_call=bool(spec.get("yic")),
        )
    elif k == "relyield":
        st = detsched.ReleaseYieldStrategy(rng, spec.get("q", 0.3), spec.get("horizon", 600))
    elif k == "nonpreemptive":
        st = detsched.Strategy()
    else:
        raise ValueError(k)
    if spec.get("interrupt") or spec.get("spawn_fail"):
        it = spec.get("interrupt")
        st = detsched.WithFaults(
            st,
            interrupt=tuple(it) if it else None,
            spawn_fail=spec.get("spawn_fail", ()),
        )
    return st


class RecObserver:
    """A ProgressObserver that records every notification (created lazily to subclass the real ABC)."""


def make_rec_observer(ctx):
    from uberjob.progress import ProgressObserver

    class Rec(ProgressObserver):
        def __init__(self):
            self.notes = []

        def __enter__(self):
            ctx.log("p_enter")

        def __exit__(self, et, ev, tb):
            ctx.log("p_exit", exc=et.__name__ if et else None)

        def increment_total(self, *, section, scope, amount):
            ctx.log("p_total", sec=section, sc=repr(scope), amt=amount)

        def increment_running(self, *, section, scope):
            ctx.log("p_running", sec=section, sc=repr(scope))

        def increment_completed(self, *, section, scope):
            ctx.log("p_completed", sec=section, sc=repr(scope))
            hook = getattr(ctx, "on_completed", None)
            if hook and section == "run":
                hook()

        def increment_failed(self, *, section, scope, exception):
            ctx.log("p_failed", sec=section, sc=repr(scope), xt=type(exception).__name__)

    return Rec()


def execute(task):
    """task: {scn, opts:{W, sched, maxerr, retry}, strat:{...}, seed, opcode, observer, files}"""
    import uberjob
    from uberjob.progress import Progress

    scn = task["scn"]
    opts = task["opts"]
    seed = task.get("seed", 0)
    rng = random.Random(seed)
    random.seed(seed ^ 0x5EED)  # RandomQueue uses the module-level generator
    strat = make_strategy(task.get("strat", {}), rng)
    sched = detsched.Scheduler(
        strat,
        preempt_files=task.get("files", detsched.ENGINE_FILES),
        opcode=task.get("opcode", False),
        step_budget=task.get("budget", 300000),
    )
    ctx = Ctx(sched)
    want_alive = task.get("track_alive", False)
    ctx.weak_exc = want_alive
    results = {}  # id -> weakref to result object
    alive_log = []

    class Res:
        __slots__ = ("tag", "__weakref__")

        def __init__(self, tag):
            self.tag = tag

    if want_alive:

        def factory(i, args, kwargs):
            r = Res(i)
            results[i] = weakref.ref(r)
            return r

        def snap(i, a):
            gc.collect()
            alive = sorted(k for k, w in results.items() if w() is not None)
            sched.log("alive", n=i, ids=alive)

        ctx.on_start = snap
        ctx.on_end = snap
        ctx.on_completed = lambda: snap(0, 0)
    else:
        factory = None
    try:
        # uberjob memoises inspect.signature per function (lru_cache(4096)); the harness creates fresh functions for
        # every execution, and each of them keeps its scheduler alive through its closure: forget them
        from uberjob._util import validation as _val

        _val.try_get_signature.cache_clear()
    except Exception:
        pass
    b = S.build(scn, ctx, factory)
    obs = None
    progress = None
    if task.get("observer"):
        obs = make_rec_observer(ctx)
        progress = Progress(lambda: obs)
        if task.get("observer") == "html":
            # a bundled display next to the recording observer: its update thread runs under the scheduler too
            # (virtual timeouts), its state is shared between the workers that notify it
            from uberjob.progress import HtmlProgressObserver
            from functools import partial

            progress = (Progress(lambda: obs), Progress(partial(HtmlProgressObserver, lambda b: None, initial_update_delay=0.01,
                                                                  min_update_interval=0.01, max_update_interval=0.05)))
        if task.get("observer") == "composite":
            obs2 = make_rec_observer(Ctx2(ctx))
            progress = (Progress(lambda: obs), Progress(lambda: obs2))
    kw = dict(
        output=b.output,
        max_workers=opts.get("W", 2),
        max_errors=opts.get("maxerr", 0),
        scheduler=opts.get("sched"),
        progress=progress,
    )
    if opts.get("retry", 1) != 1:
        kw["retry"] = opts["retry"]
    sched.log("run_begin")

    def body():
        return uberjob.run(b.plan, **kw)

    import threading as _rt
    import traceback as _tb

    thread_exc = []
    old_hook = _rt.excepthook
    _rt.excepthook = lambda a: thread_exc.append("".join(_tb.format_exception(a.exc_type, a.exc_value, a.exc_traceback))[-1500:])
    try:
        out = sched.run(body)
    finally:
        _rt.excepthook = old_hook
    rec = {
        "thread_exc": thread_exc,
        "outcome": out["outcome"],
        "dead": out["dead"],
        "events": sched.events,
        "steps": out["steps"],
        "switches": out["switches"],
        "threads": out["threads"],
        "alive_at_return": out["alive_at_return"],
        "events_after_return": out["events_after_return"],
        "leaked": out["leaked"],
        "seq_at_return": out["seq_at_return"],
        "interrupts": sched.interrupts_delivered,
        "strategy": strat.describe(),
        "preemptions": sched.preemptions,
        "engine_release_steps": list(sched.engine_release_steps),
    }
    if out["dead"]:
        rec["_poisoned"] = True
    exc = out["exc"]
    if out["outcome"] == "raised":
        rec["exc_type"] = type(exc).__name__
        if isinstance(exc, uberjob.CallError):
            rec["err_call"] = b.id_of.get(exc.call, -1)
            cause = exc.__cause__
            rec["err_cause"] = next((k for k, e in enumerate(ctx.exc_ids) if e is cause or (isinstance(e, int) and e == id(cause))), -1)
        else:
            rec["exc_repr"] = repr(exc)[:300]
    elif out["outcome"] == "returned":
        exp = S.expected_value(scn)
        if want_alive:
            rec["value_ok"] = True
        else:
            rec["value_ok"] = out["value"] == exp and type(out["value"]) is type(exp)
            if not rec["value_ok"]:
                rec["value_repr"] = repr(out["value"])[:500]
    return rec


class Ctx2:
    """Second member of a composite observer logs under different event names."""

    def __init__(self, ctx):
        self.ctx = ctx

    def log(self, ev, **kw):
        return self.ctx.log("q" + ev[1:], **kw)


# --------------------------------------------------------------------------------------
# projection to a RunAbs trace record


def runabs_record(task, rec):
    """The record consumed by RunAbsTrace.tla: constants of the scenario computed by the harness
    and the observable event sequence."""
    scn = task["scn"]
    opts = task["opts"]
    calls = S.call_ids(scn)
    anc = S.call_ancestors(scn)
    attempts = opts.get("retry", 1)
    fails = scn.get("fails", {})
    maxid = max(S.node_ids(scn))
    failn = [int(fails.get(str(c), {}).get("n", 0)) for c in range(1, maxid + 1)]
    ev = []
    for e in rec["events"]:
        k = e["ev"]
        if k == "start":
            ev.append({"e": "start", "n": e["n"], "a": e["a"], "x": -1, "t": e["th"]})
        elif k == "end":
            ev.append({"e": "endok" if e["ok"] else "endfail", "n": e["n"], "a": e["a"], "x": e["x"], "t": e["th"]})
        elif k == "interrupt":
            ev.append({"e": "interrupt", "n": 0, "a": 0, "x": -1})
        elif k == "main_settled":
            ev.append({"e": "settled", "n": e.get("outside_get", 64), "a": 0, "x": -1})
    if rec["outcome"] == "returned":
        ev.append({"e": "return", "n": 0, "a": 0, "x": -1})
    elif rec["outcome"] == "raised":
        if rec.get("exc_type") == "CallError":
            ev.append({"e": "raise", "n": rec["err_call"], "a": 0, "x": rec["err_cause"]})
        elif rec.get("exc_type") == "KeyboardInterrupt" and rec.get("interrupts"):
            ev.append({"e": "kbint", "n": 0, "a": 0, "x": -1})
        elif rec.get("exc_type") == "RuntimeError" and any(e["ev"] == "spawn_fail" for e in rec["events"]):
            ev.append({"e": "spawnerr", "n": 0, "a": 0, "x": -1})
        else:
            ev.append({"e": "othererror", "n": 0, "a": 0, "x": -1})
    else:
        ev.append({"e": "hang", "n": 0, "a": 0, "x": -1})
    if rec["outcome"] != "hang":
        ev.append({"e": "post", "n": len(rec["alive_at_return"]) + len(rec["leaked"]), "a": rec["events_after_return"], "x": -1})
    me = opts.get("maxerr", 0)
    return {
        "calls": calls,
        "anc": [anc.get(c, []) for c in range(1, maxid + 1)],
        "W": opts.get("W", 2),
        "maxerr": -1 if me is None else me,
        "attempts": attempts if isinstance(attempts, int) else 1,
        "needed": S.needed_calls(scn),
        "failn": failn,
        "events": ev,
    }
