"""Campaigns of controlled executions of the real engine, validated against RunAbs by TLC.
Shared by the engine-level properties (C01 C04 C06 C07 C10 C17)."""
import random

from . import common, engine_exec as E, scen as S, tlc

# which property a broken RunAbs clause speaks about
CLAUSE_PROP = {
    "start_while_running_phase": "C07",
    "start_once": "C04",
    "register_failing": "C04",  # a call ended in failure twice: it was executed twice
    "start_needed": "C04",  # only when the run succeeded (see classify)
    "start_deps_ok": "C01",
    "start_no_failed_ancestor": "C06",
    "start_workers": "C10",
    "start_not_stopped_err": "C10",
    "start_not_stopped_intr": "C17",
    "retry_after_failed_attempt": "C10",
    "retry_within_attempts": "C10",
    "retry_attempt_number": "C10",
    "ret_quiescent": "C07",
    "ret_not_interrupted": "C17",
    "ret_no_failure": "C06",
    "ret_needed_all_ok": "C04",
    "ret_nothing_unneeded": "C04",
    "raise_quiescent": "C07",
    "raise_not_interrupted": "C17",
    "raise_names_failed_call": "C06",
    "raise_first_when_serial": "C06",
    "raise_cause_is_last_exception": "C06",
    "raise_only_when_done_or_stopped": "C10",
    "kb_quiescent": "C17",
    "abort_quiescent": "C07",
    "kb_was_interrupted": "C17",
    "post_threads_exited": "C07",
    "post_no_late_events": "C07",
    "outcome_hang": "C07",
    "outcome_othererror": "C06",
    "inv_AttemptsBounded": "C10",
    "inv_ExactlyNeeded": "C04",
    "inv_Containment": "C06",
    "inv_RaiseNamesFailure": "C06",
    "inv_NoValueOnFailure": "C06",
    "inv_Quiescent": "C07",
    "inv_WorkersBound": "C10",
    "inv_FailBound": "C10",
    "inv_SerialFailCount": "C10",
    "inv_UnlimitedRunsAll": "C10",
    "inv_RetrySuccessCounts": "C10",
    "inv_InterruptPropagates": "C17",
    "inv_LateBounded": "C10",
}
MACHINERY_CLAUSES = {
    "event_for_unknown_call",
    "end_of_running",
    "endok_oracle",
    "fail_oracle",
    "end_attempt_number",
    "interrupt_once",
    "ret_running_phase",
    "raise_running_phase",
    "kb_running_phase",
    "abort_running_phase",
}


def classify(task, rec, clauses):
    """clauses: [(event index, clause)] of one rejected trace -> {property: [clause, ...]} using the
    first broken clause per property only for the *earliest* event (later ones may be
    consequences of the forced effect)."""
    out = {}
    interrupted = bool(rec.get("interrupts"))
    had_failure = any(e["ev"] == "end" and not e["ok"] for e in rec["events"])
    first_l = min(l for l, _ in clauses)
    first_is_machinery = all(c in MACHINERY_CLAUSES for l, c in clauses if l == first_l)
    for l, c in clauses:
        if c.startswith("offpremise_"):
            out.setdefault("offpremise", []).append(c)
            continue
        if c in MACHINERY_CLAUSES:
            # a harness-level inconsistency is a machinery failure only if nothing else broke
            # before it; after a real violation (e.g. a call started twice) the forced monitor
            # state makes such clauses fail as a consequence
            out.setdefault("machinery" if first_is_machinery else "consequence", []).append(c)
            continue
        p = CLAUSE_PROP.get(c)
        if p is None:
            out.setdefault("machinery", []).append("unmapped:" + c)
            continue
        if c in ("retry_after_failed_attempt", "retry_within_attempts", "inv_AttemptsBounded") and task["opts"].get("retry", 1) == 1:
            # without retry a second attempt of a call is a second execution (C04)
            out.setdefault("C04", []).append(c if l == first_l else c + "(secondary)")
        if c in ("raise_names_failed_call", "inv_RaiseNamesFailure", "ret_needed_all_ok", "inv_ExactlyNeeded") and not had_failure and not interrupted:
            # no call failed, yet run raised / returned without having evaluated everything: not the value of direct evaluation (C02)
            out.setdefault("C02", []).append(c if l == first_l else c + "(secondary)")
        if c == "start_no_failed_ancestor":
            out.setdefault("C01", []).append(c if l == first_l else c + "(secondary)")
        if c == "start_needed" and rec["outcome"] != "returned":
            p = "drift"  # C04 speaks about successful runs only
        if c == "outcome_hang" and interrupted:
            p = "C17"
        if c in ("post_threads_exited", "post_no_late_events") and interrupted:
            p = "C17"
        if c == "outcome_othererror" and not had_failure:
            p = "C02"
        if c == "outcome_othererror" and interrupted:
            p = "C17"  # something else than KeyboardInterrupt came out of an interrupted run
        if c == "inv_LateBounded" and interrupted:
            p = "C17"
        if c == "raise_cause_is_last_exception" and task["opts"].get("retry", 1) != 1:
            out.setdefault("C10", []).append(c)
        primary = l == first_l
        out.setdefault(p, []).append(c if primary else c + "(secondary)")
    return out


def _mk(scn, rng, *, W=None, sched=None, maxerr=0, retry=1, strat=None, seed=0, opcode=False, observer=None, files=None):
    n = len(scn["nodes"])
    t = {
        "scn": scn,
        "opts": {
            "W": W if W is not None else rng.randint(1, n + 1),
            "sched": sched if sched is not None else rng.choice(["default", "random", None]),
            "maxerr": maxerr,
            "retry": retry,
        },
        "strat": strat or {"kind": "random", "p": rng.choice([0.05, 0.15, 0.3])},
        "seed": seed,
        "opcode": opcode,
    }
    if observer:
        t["observer"] = observer
    if files:
        t["files"] = files
    return t


def gen_tasks(profile, count, seed, opcode_frac=0.15, nmax=8):
    """profile: plain | fail | retry | interrupt | spawnfail | mixed"""
    rng = random.Random(f"{profile}-{seed}")
    tasks = []
    for i in range(count):
        prof = profile
        if profile == "mixed":
            prof = rng.choice(["plain", "plain", "fail", "fail", "retry"])
        if prof == "interrupt":
            scn = S.random_scenario(rng, 4, max(nmax, 12), p_lit=0.05, p_edge=rng.choice([0.1, 0.2, 0.4]))
        else:
            scn = S.random_scenario(rng, 2, nmax)
        kw = {}
        if prof == "fail":
            scn = S.with_fail_plan(scn, rng, 1, p=rng.choice([0.15, 0.3, 0.6]))
            kw["maxerr"] = rng.choice([0, 0, 1, 2, None])
        elif prof == "retry":
            att = rng.choice([2, 3])
            scn = S.with_fail_plan(scn, rng, att, p=0.4)
            kw["maxerr"] = rng.choice([0, 1, None])
            kw["retry"] = att
        r = rng.random()
        if r < 0.35:
            strat = {"kind": "random", "p": rng.choice([0.05, 0.15, 0.3])}
        elif r < 0.6:
            strat = {"kind": "relyield", "q": rng.choice([0.15, 0.3, 0.5])}
        elif r < 0.9:
            strat = {"kind": "pct", "depth": rng.choice([1, 2, 3]), "est_steps": rng.choice([300, 1000, 3000])}
        else:
            strat = {"kind": "nonpreemptive"}
        if prof == "interrupt":
            scn = S.with_fail_plan(scn, rng, 1, p=rng.choice([0.0, 0.0, 0.2]))
            ncalls = max(1, len(S.call_ids(scn)))
            r2 = rng.random()
            if r2 < 0.6:
                strat["interrupt"] = ["event", rng.randint(1, ncalls), rng.randint(0, 40)]
            elif r2 < 0.85:
                strat["interrupt"] = ["site_running", rng.randint(1, 4)]
            else:
                strat["interrupt"] = ["site", rng.randint(1, 12)]
            kw["maxerr"] = rng.choice([0, 1, None])
            kw["sched"] = rng.choice(["random", "random", "default"])
            kw["W"] = rng.randint(1, 4)
            if strat["interrupt"][0] == "event":
                strat["interrupt"][1] = rng.randint(1, max(1, ncalls // 2))
        if prof == "spawnfail":
            w = rng.randint(1, 4)
            kw["W"] = w
            strat["spawn_fail"] = [rng.randrange(w)]
            # calls that take a while (several scheduling points inside): a worker can be in the middle of one when
            # a later Thread.start fails
            srng = random.Random(f"slow-{seed}-{i}")
            scn = dict(scn, slow={str(c): srng.choice([0, 2, 6]) for c in S.call_ids(scn)})
        opcode = rng.random() < opcode_frac
        tasks.append(_mk(scn, rng, strat=strat, seed=seed * 100003 + i, opcode=opcode, **kw))
    return tasks


def small_shape_tasks(n, seed, per_shape=1, fail=False):
    """Every multigraph DAG shape on n nodes, W in 1..n, both schedulers (rotating)."""
    rng = random.Random(f"small-{n}-{seed}")
    tasks = []
    scheds = ["default", "random"]
    k = 0
    for scn in S.small_shapes(n):
        for _ in range(per_shape):
            s2 = scn
            kw = {}
            if fail:
                s2 = S.with_fail_plan(scn, rng, 1, p=0.4)
                kw["maxerr"] = rng.choice([0, 1, None])
            tasks.append(
                _mk(s2, rng, W=1 + k % (n + 1), sched=scheds[k % 2], strat={"kind": "random", "p": 0.25}, seed=seed * 7919 + k, **kw)
            )
            k += 1
    return tasks


def enum_preempt_tasks(task, base_rec, limit=None):
    """All single-preemption variants of a non-preemptive baseline execution: at every step at
    which the baseline made a scheduling point, switch to each other thread."""
    out = []
    nthreads = base_rec["threads"]
    steps = base_rec["steps"]
    idx = list(range(1, steps + 1))
    if limit and len(idx) * (nthreads - 1) > limit:
        rng = random.Random(task["seed"])
        idx = sorted(rng.sample(idx, max(1, limit // max(1, nthreads - 1))))
    for s in idx:
        for tid in range(nthreads):
            t = dict(task)
            t["strat"] = {"kind": "preempt", "preempts": [[s, tid]], "yic": bool(task.get("yic")), **task.get("strat_extra", {})}
            out.append(t)
    return out


def _exec_one(task):
    rec = E.execute(task)
    tr = E.runabs_record(task, rec)
    # keep the payload small
    slim = {k: rec[k] for k in ("outcome", "dead", "steps", "switches", "preemptions", "threads", "engine_release_steps", "alive_at_return", "events_after_return", "leaked", "interrupts") if k in rec}
    for k in ("thread_exc", "exc_type", "exc_repr", "value_ok", "value_repr", "err_call", "err_cause", "_poisoned"):
        if k in rec:
            slim[k] = rec[k]
    slim["events"] = rec["events"] if task.get("keep_events") else [e for e in rec["events"] if e["ev"] in ("start", "end", "interrupt", "main_settled", "spawn_fail") or e["ev"].startswith(("p_", "q_", "alive"))]
    out = {"rec": slim, "tr": tr}
    if rec.get("_poisoned"):
        out["_poisoned"] = True
    return out


def _exec_enum(task):
    """Baseline + all single preemptions (bounded-preemption enumeration, b = 1)."""
    base = dict(task)
    base["strat"] = {"kind": "preempt", "preempts": [], "yic": True} if task.get("yic") else {"kind": "nonpreemptive"}
    base["strat"].update(task.get("strat_extra", {}))
    first = _exec_one(base)
    if first.get("_poisoned"):
        return {"multi": [(base, first)], "_poisoned": True}
    res = [(base, first)]
    for t in enum_preempt_tasks(base, first["rec"], limit=task.get("enum_limit")):
        o = _exec_one(t)
        res.append((t, o))
        if o.get("_poisoned"):
            return {"multi": res, "_poisoned": True}
    return {"multi": res}


def _exec_enum2r(task):
    """Two preemptions, the first right after the release of one of the engine's own locks (the window of a
    check-then-act moved out of a critical section), the second anywhere later."""
    base = dict(task)
    base["strat"] = {"kind": "preempt", "preempts": [], "yic": bool(task.get("yic"))}
    first = _exec_one(base)
    res = [(base, first)]
    if first.get("_poisoned"):
        return {"multi": res, "_poisoned": True}
    nth = first["rec"]["threads"]
    budget = task.get("enum_limit") or 10**9
    rng = random.Random(task["seed"])
    for s1 in first["rec"].get("engine_release_steps", []):
        for t1 in range(nth):
            t = dict(task)
            t["strat"] = {"kind": "preempt", "preempts": [[s1, t1]], "yic": bool(task.get("yic"))}
            o1 = _exec_one(t)
            if o1["rec"].get("preemptions", 0) == 0:
                continue
            res.append((t, o1))
            if o1.get("_poisoned"):
                return {"multi": res, "_poisoned": True}
            steps2 = list(range(s1 + 1, o1["rec"]["steps"] + 1))
            per = max(1, budget // max(1, len(first["rec"].get("engine_release_steps", [])) * max(1, nth - 1)))
            if len(steps2) * (nth - 1) > per:
                steps2 = sorted(rng.sample(steps2, max(1, per // max(1, nth - 1))))
            for s2 in steps2:
                for t2 in range(nth):
                    tt = dict(task)
                    # the second decision: a forced switch at step s2, or - if a thread blocks there - who runs next
                    for second in ({"preempts": [[s1, t1], [s2, t2]]}, {"preempts": [[s1, t1]], "blocks": [[s2, t2]]}):
                        tt = dict(task)
                        tt["strat"] = dict({"kind": "preempt", "yic": bool(task.get("yic"))}, **second)
                        o2 = _exec_one(tt)
                        if "blocks" not in second and o2["rec"].get("preemptions", 0) < 2:
                            continue
                        if "blocks" in second and o2["rec"].get("switches") == o1["rec"].get("switches") and o2["rec"]["steps"] == o1["rec"]["steps"]:
                            continue  # nothing blocked at that step: same execution as with one preemption
                        res.append((tt, o2))
                        if o2.get("_poisoned"):
                            return {"multi": res, "_poisoned": True}
    return {"multi": res}


def _dispatch(task):
    if task.get("mode") == "enum1":
        return _exec_enum(task)
    if task.get("mode") == "enum2r":
        return _exec_enum2r(task)
    return _exec_one(task)


def run_tasks(tasks):
    """Execute tasks in the process pool. Returns flat lists (tasks, recs, traces)."""
    outs = common.pmap(_dispatch, tasks)
    ft, fr, ftr = [], [], []
    for t, o in zip(tasks, outs):
        if "multi" in o:
            for t2, o2 in o["multi"]:
                ft.append(t2)
                fr.append(o2["rec"])
                ftr.append(o2["tr"])
        else:
            ft.append(t)
            fr.append(o["rec"])
            ftr.append(o["tr"])
    return ft, fr, ftr


def validate(tasks, recs, traces, batch=4000):
    """RunAbsTrace validation. Returns (findings, stats): findings = list of
    {task, rec, by_prop: {prop: [clauses]}, clauses}"""
    findings = []
    states = 0
    accepted = 0
    for off in range(0, len(traces), batch):
        chunk = traces[off : off + batch]
        acc, rej, r = tlc.validate_traces("RunAbsTrace", "RunAbsTrace.cfg", chunk)
        states += r.distinct
        accepted += len(acc)
        for tid, clauses in rej.items():
            i = off + tid - 1
            findings.append(
                {
                    "task": tasks[i],
                    "rec": recs[i],
                    "clauses": clauses,
                    "by_prop": classify(tasks[i], recs[i], clauses),
                }
            )
    return findings, {"trace_states": states, "accepted": accepted, "validated": len(traces)}


def value_findings(tasks, recs):
    """Direct oracle for the returned value (C02 / the observable part no trace event carries)."""
    out = []
    for t, r in zip(tasks, recs):
        if r["outcome"] == "returned" and r.get("value_ok") is False:
            out.append({"task": t, "rec": r, "clauses": [(0, "value_equals_direct_evaluation")], "by_prop": {"C02": ["value_equals_direct_evaluation"]}})
    return out


def nontrivial(rec):
    """An execution is non-trivial for schedule coverage if at least one preemptive switch
    happened (some other thread was runnable and was chosen over the running one)."""
    return rec.get("preemptions", 0) > 0 or rec.get("switches", 0) > 2


def witness(f):
    t = dict(f["task"])
    return {"task": t, "clauses": f["clauses"], "outcome": f["rec"].get("outcome"), "dead": f["rec"].get("dead"), "exc": f["rec"].get("exc_repr")}


def signature(prop, clause):
    return f"{prop}:engine:{clause}"


OBSERVER_FILES = ("uberjob/progress/",)


def bundled_observer_tasks(seed, count, profile="mixed"):
    """Executions with a bundled display (HTML observer with its update thread) next to the recording observer,
    preemption also inside the observers' code: races between workers notifying the display and between the
    display's own thread and shutdown."""
    from . import detsched

    tasks = gen_tasks(profile, count, seed + 900, opcode_frac=0.0, nmax=7)
    rng = random.Random(f"bundled-{seed}")
    for t in tasks:
        t["observer"] = "html"
        t["files"] = list(detsched.ENGINE_FILES + OBSERVER_FILES)
        t["keep_events"] = True
        t["opts"]["W"] = rng.choice([2, 3, 4])
        # scopes so that several scope states exist
        t["scn"] = dict(t["scn"])
        t["scn"]["scopes"] = {str(n["id"]): [rng.choice(["a", "b", "c"])] for n in t["scn"]["nodes"]}
        t["budget"] = 400000
    return tasks


def join_enum_tasks(seed, count=4, limit=None):
    """Bounded-preemption enumeration (b = 1, every step x every other thread) on plans built around
    *joins* - nodes with several predecessors, including literals with several dependencies whose
    successor has a further, slow predecessor - with user calls yielding to every other thread
    (a call takes long compared with the engine's bookkeeping). This is the systematic search for
    check-then-act races on the predecessor counters."""
    rng = random.Random(f"joins-{seed}")
    fixed = [
        {"nodes": [{"id": 1, "kind": "call"}, {"id": 2, "kind": "call"}, {"id": 3, "kind": "call"}, {"id": 4, "kind": "call"}],
         "edges": [[1, 3, "pos"], [2, 3, "pos"], [3, 4, "pos"]], "output": {"node": 4}},
        {"nodes": [{"id": 1, "kind": "call"}, {"id": 2, "kind": "call"}, {"id": 3, "kind": "lit"}, {"id": 4, "kind": "call"}, {"id": 5, "kind": "call"}],
         "edges": [[1, 3, "dep"], [2, 3, "dep"], [3, 5, "dep"], [4, 5, "pos"]], "output": {"node": 5}},
        {"nodes": [{"id": 1, "kind": "call"}, {"id": 2, "kind": "call"}, {"id": 3, "kind": "call"}, {"id": 4, "kind": "call"}, {"id": 5, "kind": "call"}],
         "edges": [[1, 3, "pos"], [2, 3, "kw"], [1, 4, "dep"], [3, 5, "pos"], [4, 5, "pos"]], "output": {"list": [{"node": 5}]}},
    ]
    scns = [S.norm(dict(f)) for f in fixed]
    while len(scns) < count:
        s = S.random_scenario(rng, 4, 5, p_lit=0.2, p_edge=0.6)
        p = S.preds(s)
        if any(len(v) >= 2 for v in p.values()):
            scns.append(s)
    tasks = []
    for i, scn in enumerate(scns[:count]):
        t = _mk(scn, rng, W=rng.choice([2, 3]), sched=rng.choice(["default", "random"]), strat={"kind": "nonpreemptive"}, seed=seed * 31 + i)
        t["mode"] = "enum1"
        t["yic"] = True
        if limit:
            t["enum_limit"] = limit
        tasks.append(t)
    return tasks


def spawnfail_enum_tasks(seed, count=4):
    """Bounded-preemption enumeration (b = 1) of runs in which the j-th Thread.start fails (j >= 1, so that earlier
    workers exist), on small plans whose calls take a while: every placement of one switch, in particular 'a worker
    is in the middle of a call when the calling thread hits the failing start and cleans up'."""
    rng = random.Random(f"spawnenum-{seed}")
    tasks = []
    for i in range(count):
        scn = S.random_scenario(rng, 2, 4, p_lit=0.0, p_edge=rng.choice([0.0, 0.3]))
        scn = dict(scn, slow={str(c): 2 for c in S.call_ids(scn)})
        w = rng.choice([2, 3])
        t = _mk(scn, rng, W=w, sched=rng.choice(["default", "random"]), strat={"kind": "nonpreemptive"}, seed=seed * 37 + i)
        t["mode"] = "enum1"
        t["yic"] = True
        t["strat_extra"] = {"spawn_fail": [rng.randrange(1, w)]}
        tasks.append(t)
    return tasks


def literal_chain_tasks(seed, count):
    """Plans in which dependencies are routed through chains of literals (call -> lit -> lit -> call), some of
    the literals also being arguments or having several neighbours, so that trivial-literal pruning bypasses
    some and keeps others."""
    rng = random.Random(f"litchain-{seed}")
    tasks = []
    for i in range(count):
        nodes, edges = [], []
        nid = 0

        def add(kind):
            nonlocal nid
            nid += 1
            nodes.append({"id": nid, "kind": kind})
            return nid

        heads = [add("call") for _ in range(rng.randint(1, 2))]
        lits_all = []
        tails = []
        for h in heads:
            prev = h
            for _ in range(rng.randint(2, 3)):
                l = add("lit")
                lits_all.append(l)
                edges.append([prev, l, "dep"])
                prev = l
            tails.append(prev)
        # extra predecessors / consumers of some literals (keeps them from being trivial, or makes them arguments)
        extra_calls = [add("call") for _ in range(rng.randint(0, 2))]
        for c in extra_calls:
            l = rng.choice(lits_all)
            if c > l:
                edges.append([l, c, rng.choice(["pos", "dep"])])
        finals = []
        for t in tails:
            b = add("call")
            edges.append([t, b, "dep"])
            if rng.random() < 0.5 and lits_all:
                l2 = rng.choice(lits_all)
                if l2 != t:
                    edges.append([l2, b, rng.choice(["pos", "dep"])])
            finals.append(b)
        # de-duplicate plain dependencies per pair
        seen, e2 = set(), []
        for e in edges:
            if e[2] == "dep":
                if (e[0], e[1]) in seen:
                    continue
                seen.add((e[0], e[1]))
            e2.append(e)
        scn = S.norm({"nodes": nodes, "edges": e2, "output": {"list": [{"node": b} for b in finals + extra_calls]},
                      "slow": {str(h): rng.choice([0, 3, 8]) for h in heads}})
        strat = rng.choice([{"kind": "random", "p": 0.3}, {"kind": "relyield", "q": 0.3}, {"kind": "pct", "depth": 2, "est_steps": 500}])
        tasks.append(_mk(scn, rng, W=rng.choice([2, 3, 4]), sched=rng.choice(["default", "random"]), strat=strat, seed=seed * 65537 + i))
    return tasks


def wide_fail_tasks(seed, count):
    """Wide plans of independent calls most of which fail, small max_errors, several workers: the failure
    bookkeeping (error count, first error, stop flag) is hit by several workers at the same moment."""
    rng = random.Random(f"widefail-{seed}")
    tasks = []
    for i in range(count):
        n = rng.randint(5, 9)
        nodes = [{"id": k, "kind": "call"} for k in range(1, n + 1)]
        edges = []
        if rng.random() < 0.3:
            edges.append([1, n, "pos"])
        scn = S.norm({"nodes": nodes, "edges": edges, "output": {"list": [{"node": k} for k in range(1, n + 1)]}})
        scn["fails"] = {str(k): {"n": 1, "exc": rng.choice(["Exception", "KeyError", "BaseExc"])} for k in range(1, n + 1) if rng.random() < 0.85}
        strat = rng.choice([{"kind": "random", "p": 0.3}, {"kind": "relyield", "q": 0.4}, {"kind": "pct", "depth": 3, "est_steps": 800},
                            {"kind": "pct", "depth": 2, "est_steps": 400}])
        tasks.append(_mk(scn, rng, W=rng.choice([2, 3, 4]), sched=rng.choice(["default", "random"]), maxerr=rng.choice([1, 1, 2, 3]),
                         strat=strat, seed=seed * 48611 + i))
    return tasks
