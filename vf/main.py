"""Entry point: ./check <ID> [--tier quick|thorough] [--replay PATH]"""
import argparse
import importlib
import json
import os
import sys

from . import common


def main():
    ap = argparse.ArgumentParser()
    ap.add_argument("prop")
    ap.add_argument("--tier", default=os.environ.get("VERIF_TIER", "quick"), choices=["quick", "thorough"])
    ap.add_argument("--replay", default=None)
    a = ap.parse_args()
    common.assert_repo_uberjob()
    seed = common.seed_from_env(0)
    mod = importlib.import_module(f"vf.props.{a.prop.lower()}")
    if a.replay:
        with open(a.replay) as f:
            w = json.load(f)
        return mod.replay(w)
    res = mod.run(a.tier, seed)
    return common.finish(res)


if __name__ == "__main__":
    sys.exit(common.main_wrapper(main))
