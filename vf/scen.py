"""Scenarios: JSON descriptions of plans (multigraph DAGs of calls and literals), generators for
them, the harness's own dependency relation, and construction of the real uberjob Plan."""
import itertools
import random

EDGE_KINDS = ("pos", "kw", "dep")


def norm(scn):
    scn.setdefault("fails", {})
    scn.setdefault("output", None)
    scn.setdefault("scopes", {})
    return scn


def node_ids(scn):
    return [n["id"] for n in scn["nodes"]]


def call_ids(scn):
    return [n["id"] for n in scn["nodes"] if n["kind"] == "call"]


def preds(scn):
    p = {i: set() for i in node_ids(scn)}
    for s, d, _k in scn["edges"]:
        p[d].add(s)
    return p


def ancestors(scn):
    """Harness-side dependency relation: strict transitive ancestors over *all* edge kinds,
    through literals, parallel edges collapsed. Not computed by anything in uberjob."""
    p = preds(scn)
    anc = {}
    for i in sorted(p):  # ids are a topological order
        a = set()
        for q in p[i]:
            a.add(q)
            a |= anc[q]
        anc[i] = a
    return anc


def call_ancestors(scn):
    calls = set(call_ids(scn))
    return {i: sorted(a & calls) for i, a in ancestors(scn).items() if i in calls}


def output_nodes(out):
    """Node ids mentioned in an output spec."""
    if out is None:
        return []
    if isinstance(out, dict):
        if "node" in out:
            return [out["node"]]
        if "atom" in out:
            return []
        for k in ("list", "tuple", "set"):
            if k in out:
                return [x for o in out[k] for x in output_nodes(o)]
        if "dict" in out:
            return [x for kv in out["dict"] for o in kv for x in output_nodes(o)]
    raise ValueError(out)


def needed_calls(scn):
    """Calls a run without registry must execute: the output's nodes and their call ancestors."""
    anc = ancestors(scn)
    calls = set(call_ids(scn))
    need = set()
    for o in output_nodes(scn.get("output")):
        need.add(o)
        need |= anc[o]
    return sorted(need & calls)


# --------------------------------------------------------------------------------------
# generators


def random_scenario(rng: random.Random, n_min=2, n_max=8, p_lit=0.15, p_edge=0.4):
    n = rng.randint(n_min, n_max)
    nodes = []
    for i in range(1, n + 1):
        kind = "lit" if rng.random() < p_lit else "call"
        nodes.append({"id": i, "kind": kind})
    kind_of = {x["id"]: x["kind"] for x in nodes}
    edges = []
    for j in range(2, n + 1):
        for i in range(1, j):
            if rng.random() < p_edge:
                m = 1 if rng.random() < 0.8 else 2  # parallel edges
                for _ in range(m):
                    if kind_of[j] == "lit":
                        k = "dep"
                    else:
                        k = rng.choice(EDGE_KINDS)
                    edges.append([i, j, k])
    # a Dependency edge is unique per pair in a MultiDiGraph keyed by Dependency(): de-duplicate
    seen = set()
    e2 = []
    for e in edges:
        if e[2] == "dep":
            if (e[0], e[1]) in seen:
                continue
            seen.add((e[0], e[1]))
        e2.append(e)
    scn = {"nodes": nodes, "edges": e2}
    calls = [i for i in kind_of if kind_of[i] == "call"]
    r = rng.random()
    if not calls or r < 0.1:
        out = None
    elif r < 0.4:
        out = {"node": rng.choice(list(kind_of))}
    elif r < 0.8:
        sinks = [i for i in kind_of if not any(e[0] == i for e in e2)]
        out = {"list": [{"node": i} for i in sinks]}
    else:
        k = rng.sample(list(kind_of), min(len(kind_of), rng.randint(1, 3)))
        out = {"dict": [[{"atom": f"k{i}"}, {"tuple": [{"node": i}, {"atom": i}]}] for i in k]}
    scn["output"] = out
    if rng.random() < 0.5:
        scn["scopes"] = {str(i): [rng.choice(["a", "b"])] for i in kind_of if rng.random() < 0.6}
    return norm(scn)


def all_sinks_output(scn):
    ids = node_ids(scn)
    srcs = {e[0] for e in scn["edges"]}
    return {"list": [{"node": i} for i in ids if i not in srcs]}


def small_shapes(n, kinds_options=("call", "lit"), edge_options=None):
    """Every multigraph DAG on n nodes in topological order, each ordered pair carrying one of
    `edge_options` (tuples of edge kinds; () = no edge). Yields scenarios with all-sinks output."""
    if edge_options is None:
        edge_options = ((), ("pos",), ("kw",), ("dep",), ("pos", "pos"), ("pos", "dep"))
    pairs = [(i, j) for j in range(1, n + 1) for i in range(1, j)]
    for kinds in itertools.product(kinds_options, repeat=n):
        if all(k == "lit" for k in kinds):
            continue
        for combo in itertools.product(edge_options, repeat=len(pairs)):
            edges = []
            ok = True
            for (i, j), opt in zip(pairs, combo):
                for k in opt:
                    if kinds[j - 1] == "lit" and k != "dep":
                        ok = False
                    edges.append([i, j, k])
            if not ok:
                continue
            scn = {
                "nodes": [{"id": i + 1, "kind": kinds[i]} for i in range(n)],
                "edges": edges,
            }
            scn["output"] = all_sinks_output(scn)
            yield norm(scn)


def with_fail_plan(scn, rng, attempts=1, p=0.3):
    """Choose calls that fail: {id: {"n": failing attempts (>= attempts means always), "exc": name}}"""
    fails = {}
    for c in call_ids(scn):
        if rng.random() < p:
            n = attempts if rng.random() < 0.6 else rng.randint(1, attempts)
            if attempts > 1 and rng.random() < 0.4:
                n = rng.randint(1, attempts - 1)  # flaky: eventually succeeds
            fails[str(c)] = {
                "n": n,
                "exc": rng.choice(["Exception", "KeyError", "BaseExc", "SystemExit", "KeyboardInterrupt", "CallError", "NodeError"])
                if attempts == 1
                else rng.choice(["Exception", "KeyError", "ValueError"]),
            }
    s = dict(scn)
    s["fails"] = fails
    return s


# --------------------------------------------------------------------------------------
# building the real plan


class BaseExc(BaseException):
    pass


def _call_error(msg):
    """An exception of uberjob's own public error type, as a nested uberjob.run in a call raises."""
    import uberjob
    from uberjob.graph import Call

    return uberjob.CallError(Call(len))


def _node_error(msg):
    """An instance of the library's *internal* node-error type raised by a user function (it must be treated like
    any other failure of that call). If the internal class is not where it used to be, any Exception serves."""
    from uberjob.graph import Call

    try:
        from uberjob._errors import NodeError
    except Exception:
        try:
            from uberjob._execution.run_function_on_graph import NodeError
        except Exception:
            return Exception(msg)
    try:
        return NodeError(Call(len))
    except Exception:
        return Exception(msg)


EXC_TYPES = {
    "CallError": _call_error,
    "NodeError": _node_error,
    "Exception": Exception,
    "KeyError": KeyError,
    "ValueError": ValueError,
    "BaseExc": BaseExc,
    "SystemExit": SystemExit,
    "KeyboardInterrupt": KeyboardInterrupt,
}


class Built:
    def __init__(self):
        self.plan = None
        self.node = {}  # id -> uberjob node
        self.id_of = {}  # uberjob node -> id
        self.output = None
        self.raised = {}  # call id -> list of exception objects raised (per attempt)


def build(scn, ctx, result_factory=None):
    """Construct the uberjob Plan for a scenario. `ctx` provides log(ev, **kw) and optional
    on_start(id, attempt) / on_end(id, attempt, ok) callbacks executed inside the call."""
    import uberjob

    b = Built()
    plan = uberjob.Plan()
    b.plan = plan
    inc = {i: [] for i in node_ids(scn)}
    for e in scn["edges"]:
        inc[e[1]].append(e)
    fails = scn.get("fails", {})
    scopes = scn.get("scopes", {})
    slow = scn.get("slow", {})

    def make_fn(i):
        spec = fails.get(str(i))
        attempts = [0]

        def f(*args, **kwargs):
            attempts[0] += 1
            a = attempts[0]
            ctx.log("start", n=i, a=a)
            hook = getattr(ctx, "on_start", None)
            if hook:
                hook(i, a)
            ctx.in_call()  # the call takes time: other threads may run here
            for _ in range(int(slow.get(str(i), 0))):
                ctx.in_call()  # a slow call: many more opportunities for the others
            if spec and a <= spec["n"]:
                exc = EXC_TYPES[spec["exc"]](f"fail n{i} a{a}")
                weak = getattr(ctx, "weak_exc", False)  # C16: the harness must not keep the exception (and, through its traceback, the arguments) alive
                if not weak:
                    b.raised.setdefault(i, []).append(exc)
                ctx.log("end", n=i, a=a, ok=False, x=len(ctx.exc_ids))
                ctx.exc_ids.append(id(exc) if weak else exc)
                raise exc
            if result_factory:
                val = result_factory(i, args, kwargs)
            else:
                val = ("n%d" % i, args, tuple(kwargs.items()))
            hook = getattr(ctx, "on_end", None)
            if hook:
                hook(i, a)
            ctx.log("end", n=i, a=a, ok=True, x=-1)
            return val

        f.__name__ = f.__qualname__ = f"f{i}"
        f.__module__ = "vfscen"
        return f

    for nd in scn["nodes"]:
        i = nd["id"]
        sc = scopes.get(str(i), [])
        with plan.scope(*sc):
            if nd["kind"] == "lit":
                node = plan.lit(("lit", i))
            else:
                pos = [b.node[e[0]] for e in inc[i] if e[2] == "pos"]
                kws = [b.node[e[0]] for e in inc[i] if e[2] == "kw"]
                kw = {f"k{j}": v for j, v in enumerate(kws)}
                node = plan.call(make_fn(i), *pos, **kw)
        for e in inc[i]:
            if e[2] == "dep":
                plan.add_dependency(b.node[e[0]], node)
        b.node[i] = node
        b.id_of[node] = i

    def conv(o):
        if o is None:
            return None
        if "node" in o:
            return b.node[o["node"]]
        if "atom" in o:
            return o["atom"]
        if "list" in o:
            return [conv(x) for x in o["list"]]
        if "tuple" in o:
            return tuple(conv(x) for x in o["tuple"])
        if "set" in o:
            return {conv(x) for x in o["set"]}
        if "dict" in o:
            return {conv(k): conv(v) for k, v in o["dict"]}
        raise ValueError(o)

    b.output = conv(scn.get("output"))
    return b


def expected_value(scn):
    """Direct evaluation of the scenario's expression graph (harness reference)."""
    inc = {i: [] for i in node_ids(scn)}
    for e in scn["edges"]:
        inc[e[1]].append(e)
    val = {}
    for nd in scn["nodes"]:
        i = nd["id"]
        if nd["kind"] == "lit":
            val[i] = ("lit", i)
        else:
            pos = tuple(val[e[0]] for e in inc[i] if e[2] == "pos")
            kws = [val[e[0]] for e in inc[i] if e[2] == "kw"]
            val[i] = ("n%d" % i, pos, tuple((f"k{j}", v) for j, v in enumerate(kws)))

    def conv(o):
        if o is None:
            return None
        if "node" in o:
            return val[o["node"]]
        if "atom" in o:
            return o["atom"]
        if "list" in o:
            return [conv(x) for x in o["list"]]
        if "tuple" in o:
            return tuple(conv(x) for x in o["tuple"])
        if "set" in o:
            return {conv(x) for x in o["set"]}
        if "dict" in o:
            return {conv(k): conv(v) for k, v in o["dict"]}

    return conv(scn.get("output"))
