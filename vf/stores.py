"""Harness value stores: in-memory, logical clock, programmable faults, operation log."""
import datetime as dt

EPOCH = dt.datetime(2000, 1, 1)


class Cut(Exception):
    """The fault injected at the cut position of a run (an ordinary exception)."""


class Dead(BaseException):
    """Raised by every operation after a 'process died' cut: nothing has any effect any more."""


class Norm:
    """What a normalising store returns from read(): distinguishable from what was written."""

    __slots__ = ("v",)

    def __init__(self, v):
        self.v = v

    def __eq__(self, o):
        return isinstance(o, Norm) and o.v == self.v

    def __hash__(self):
        return hash(("Norm", self.v))

    def __repr__(self):
        return f"Norm({self.v!r})"


class World:
    """Shared state of all stores of one universe: logical clock, operation log, fault plan."""

    def __init__(self, log=None):
        self.clock = 0
        self.ops = []  # operation log of the current run (dicts)
        self.opcount = 0  # operations (store ops and call starts) in the current run
        self.fault = None  # {"at": k, "when": "before"|"after", "mode": "raise"|"dead"} for the current run
        self.dead = False
        self.cut_hit = False
        self._log = log
        self.inflight = 0
        self.max_inflight = 0
        self.normalising = False

    def tick(self):
        self.clock += 1
        return self.clock

    def time_of(self, rank):
        return EPOCH + dt.timedelta(seconds=rank)

    def begin_run(self, fault=None):
        self.ops = []
        self.opcount = 0
        self.fault = fault
        self.dead = False
        self.cut_hit = False
        self.inflight = 0
        self.max_inflight = 0

    def log(self, ev, **kw):
        kw["ev"] = ev
        self.ops.append(kw)
        if self._log:
            self._log(ev, **kw)

    def enter(self):
        self.inflight += 1
        if self.inflight > self.max_inflight:
            self.max_inflight = self.inflight

    def leave(self):
        self.inflight -= 1

    def op(self, kind):
        """Count one operation; returns the phase at which this operation is to be cut, or None."""
        if self.dead:
            raise Dead()
        self.opcount += 1
        f = self.fault
        if f and not self.cut_hit and f["at"] == self.opcount:
            return f
        return None

    def trip(self, f):
        self.cut_hit = True
        if f["mode"] == "dead":
            self.dead = True
            raise Dead()
        raise Cut(f"cut at op {f['at']}")


def make_store_class():
    from uberjob import ValueStore

    class LogicalStore(ValueStore):
        def __init__(self, name, world, flaky=None):
            self.name = name
            self.world = world
            self.present = False
            self.value = None
            self.rank = 0
            self.flaky = dict(flaky or {})  # {"read": j, "write": j, "mtime": j}: first j attempts raise
            self.attempts = {"read": 0, "write": 0, "mtime": 0}

        def _flaky(self, kind):
            self.attempts[kind] += 1
            if self.attempts[kind] <= self.flaky.get(kind, 0):
                self.world.log("flaky", store=self.name, op=kind, a=self.attempts[kind])
                raise OSError(f"flaky {kind} {self.name} attempt {self.attempts[kind]}")

        def read(self):
            w = self.world
            w.enter()
            try:
                f = w.op("read")
                if f and f["when"] == "before":
                    w.log("cut", store=self.name, op="read")
                    w.trip(f)
                self._flaky("read")
                if not self.present:
                    w.log("read_missing", store=self.name)
                    raise FileNotFoundError(self.name)
                w.log("read", store=self.name, rank=self.rank)
                v = Norm(self.value) if w.normalising else self.value
                if f:
                    w.log("cut", store=self.name, op="read_after")
                    w.trip(f)
                return v
            finally:
                w.leave()

        def write(self, value):
            w = self.world
            w.enter()
            try:
                f = w.op("write")
                if f and f["when"] == "before":
                    w.log("cut", store=self.name, op="write")
                    w.trip(f)
                self._flaky("write")
                self.value = value
                self.present = True
                self.rank = w.tick()
                w.log("write", store=self.name, rank=self.rank)
                if f:
                    w.log("cut", store=self.name, op="write_after")
                    w.trip(f)
            finally:
                w.leave()

        def get_modified_time(self):
            w = self.world
            w.enter()
            try:
                f = w.op("mtime")
                if f and f["when"] == "before":
                    w.log("cut", store=self.name, op="mtime")
                    w.trip(f)
                self._flaky("mtime")
                w.log("mtime", store=self.name, rank=self.rank if self.present else 0)
                if f:
                    w.log("cut", store=self.name, op="mtime_after")
                    w.trip(f)
                return w.time_of(self.rank) if self.present else None
            finally:
                w.leave()

        # harness-side manipulation (not through uberjob)
        def put(self, value):
            self.value = value
            self.present = True
            self.rank = self.world.tick()

        def delete(self):
            self.present = False
            self.value = None
            self.rank = 0

        def __repr__(self):
            return f"LogicalStore({self.name})"

    return LogicalStore
