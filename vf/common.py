"""Shared plumbing for the /verif checks: paths, scratch dirs, evidence, verdicts,
known findings, a crash-tolerant process pool."""
import contextlib
import hashlib
import json
import multiprocessing as mp
import os
import shutil
import sys
import tempfile
import time
import traceback

VERIF = os.path.dirname(os.path.dirname(os.path.abspath(__file__)))
REPO = os.environ.get("VERIF_REPO", "/repo")
REPO_SRC = os.path.join(REPO, "src")
SPEC = os.path.join(VERIF, "spec")
EVIDENCE = os.environ.get("VERIF_EVIDENCE_DIR") or os.path.join(VERIF, "evidence")
REPLAYS = os.environ.get("VERIF_REPLAYS_DIR") or os.path.join(VERIF, "replays")
KNOWN = os.path.join(VERIF, "known_findings.json")
NPROC = int(os.environ.get("VERIF_NPROC", str(min(16, os.cpu_count() or 1))))


class MachineryError(Exception):
    """Something in the verification machinery (not the property) went wrong: exit 2."""


def assert_repo_uberjob():
    import uberjob

    f = os.path.realpath(uberjob.__file__)
    if not f.startswith(os.path.realpath(REPO_SRC) + os.sep):
        raise MachineryError(
            f"uberjob imported from {f}, expected under {REPO_SRC} (PYTHONPATH not set?)"
        )


def scratch_root():
    base = os.environ.get("VERIF_SCRATCH") or "/var/tmp"
    os.makedirs(base, exist_ok=True)
    return base


@contextlib.contextmanager
def scratch(prefix="vf-"):
    d = tempfile.mkdtemp(prefix=prefix, dir=scratch_root())
    try:
        yield d
    finally:
        shutil.rmtree(d, ignore_errors=True)


def seed_from_env(default=0):
    try:
        return int(os.environ.get("VERIF_SEED", default))
    except ValueError:
        return default


def stable_hash(obj) -> str:
    return hashlib.sha256(
        json.dumps(obj, sort_keys=True, default=repr).encode()
    ).hexdigest()[:16]


# --------------------------------------------------------------------------------------
# verdicts


class Violation:
    """An observable breach of a property with a replayable witness."""

    def __init__(self, prop, signature, what, witness):
        self.prop = prop
        self.signature = signature  # stable key used for known-finding matching
        self.what = what  # one line of human-readable text
        self.witness = witness  # JSON-able; written to the replay file

    def to_json(self):
        return {
            "property": self.prop,
            "signature": self.signature,
            "what": self.what,
            "witness": self.witness,
        }


def load_known():
    if not os.path.exists(KNOWN):
        return []
    with open(KNOWN) as f:
        return json.load(f).get("findings", [])


def known_open_signatures(prop):
    return {
        k["signature"]: k
        for k in load_known()
        if k.get("property") == prop and k.get("status") == "open"
    }


def write_replay(v: Violation) -> str:
    d = os.path.join(REPLAYS, v.prop)
    os.makedirs(d, exist_ok=True)
    p = os.path.join(d, stable_hash(v.to_json()) + ".json")
    with open(p, "w") as f:
        json.dump(v.to_json(), f, indent=1, default=repr)
    return p


class Result:
    """What one check run produced."""

    def __init__(self, prop, tier, seed, level):
        self.prop = prop
        self.tier = tier
        self.seed = seed
        self.level = level
        self.coverage = {}
        self.assumptions = []
        self.violations = []  # list[Violation]
        self.notes = {}
        self.t0 = time.time()

    def add_violation(self, signature, what, witness, prop=None):
        self.violations.append(Violation(prop or self.prop, signature, what, witness))

    def merge_counts(self, **kw):
        for k, v in kw.items():
            self.coverage[k] = self.coverage.get(k, 0) + v

    def add_samples(self, samples, cap=6):
        s = self.coverage.setdefault("samples", [])
        for x in samples:
            if len(s) < cap:
                s.append(x)


def finish(res: Result) -> int:
    """Write evidence, print verdict lines, return the exit code."""
    known = known_open_signatures(res.prop)
    seen_known = {}
    fresh = []
    for v in res.violations:
        if v.signature in known:
            seen_known.setdefault(v.signature, v)
        else:
            fresh.append(v)
    # de-duplicate by signature, keep the first witness of each
    uniq = {}
    for v in fresh:
        uniq.setdefault(v.signature, v)
    cov = dict(res.coverage)
    cov.setdefault("evaluations", 0)
    cov.setdefault("distinct_nontrivial", 0)
    cov.setdefault("rule", "")
    cov.setdefault("samples", [])
    cov["known_findings_seen"] = sorted(seen_known)
    cov.update(res.notes)
    ev = {
        "property_id": res.prop,
        "tier": res.tier,
        "seed": int(res.seed),
        "level": res.level,
        "coverage": cov,
        "assumptions": res.assumptions,
        "wall_s": round(time.time() - res.t0, 2),
        "violations": len(uniq),
    }
    os.makedirs(EVIDENCE, exist_ok=True)
    tmp = os.path.join(EVIDENCE, f".{res.prop}.json.tmp")
    with open(tmp, "w") as f:
        json.dump(ev, f, indent=1, default=repr)
    os.replace(tmp, os.path.join(EVIDENCE, f"{res.prop}.json"))
    if res.tier == "thorough":
        # the last thorough run keeps a record of its own (evidence/<id>.json is rewritten by every run, quick or thorough)
        td = os.path.join(EVIDENCE, "thorough")
        os.makedirs(td, exist_ok=True)
        with open(os.path.join(td, f".{res.prop}.json.tmp"), "w") as f:
            json.dump(ev, f, indent=1, default=repr)
        os.replace(os.path.join(td, f".{res.prop}.json.tmp"), os.path.join(td, f"{res.prop}.json"))
    for sig, v in sorted(seen_known.items()):
        print(f"KNOWN-FINDING: property={res.prop} {known[sig].get('what', v.what)}")
    for sig, v in sorted(uniq.items()):
        path = write_replay(v)
        print(f"  violated: {v.what}  [signature {sig}]")
        print(f"VIOLATION property={res.prop} replay={path}")
    print(
        f"{res.prop} tier={res.tier} seed={res.seed} wall={ev['wall_s']}s "
        f"evaluations={cov.get('evaluations')} states={cov.get('states', '-')} "
        f"violations={len(uniq)} known={len(seen_known)}"
    )
    return 1 if uniq else 0


# --------------------------------------------------------------------------------------
# process pool that tolerates workers which must die (deadlocked executions)

EXIT_POISONED = 17
TASKS_PER_WORKER = int(os.environ.get("VERIF_TASKS_PER_WORKER", "300"))


def _pool_worker(fn, init, tq, rq):
    try:
        if init:
            init()
    except BaseException:
        rq.put(("initfail", None, traceback.format_exc()))
        rq.close()
        rq.join_thread()
        os._exit(3)
    served = 0
    while True:
        if served >= TASKS_PER_WORKER:
            # a long-lived interpreter accumulates garbage of past executions (old schedulers, plans); start afresh
            rq.close()
            rq.join_thread()
            os._exit(0)
        item = tq.get()
        if item is None:
            os._exit(0)
        served += 1
        idx, task = item
        rq.put(("start", idx, os.getpid()))
        try:
            out = fn(task)
        except BaseException:
            rq.put(("error", idx, traceback.format_exc()))
            rq.close()
            rq.join_thread()
            os._exit(4)
        poisoned = isinstance(out, dict) and out.get("_poisoned")
        if os.environ.get("VERIF_DEBUG_POOL"):
            print("worker", os.getpid(), "done", idx, "poisoned", poisoned, file=sys.stderr, flush=True)
        rq.put(("done", idx, out))
        if poisoned:
            # let the feeder thread flush
            rq.close()
            rq.join_thread()
            os._exit(EXIT_POISONED)


def pmap(fn, tasks, nproc=None, init=None, progress=None):
    """Run fn(task) for every task in worker processes (fork). A task result that is a dict with
    key `_poisoned` makes its worker exit afterwards (its interpreter holds stuck threads); the
    worker is replaced. Results are returned in task order. A worker that dies without reporting
    is a machinery failure."""
    tasks = list(tasks)
    n = len(tasks)
    if n == 0:
        return []
    nproc = max(1, min(nproc or NPROC, n))
    ctx = mp.get_context("fork")
    tq = ctx.Queue()
    rq = ctx.Queue()
    for i, t in enumerate(tasks):
        tq.put((i, t))
    procs = []

    def spawn():
        p = ctx.Process(target=_pool_worker, args=(fn, init, tq, rq), daemon=True)
        p.start()
        procs.append(p)

    for _ in range(nproc):
        spawn()
    results = [None] * n
    got = 0
    inflight = {}

    def reap(quiet):
        """Remove dead workers; a dead worker with a task in flight is an error only once the
        result queue has been quiet (its last messages may still be in the pipe)."""
        for p in list(procs):
            if not p.is_alive():
                lost = [i for i, pid in inflight.items() if pid == p.pid]
                if lost and not quiet:
                    continue
                procs.remove(p)
                if lost:
                    raise MachineryError(
                        f"worker {p.pid} died (exit {p.exitcode}) while running task {lost}"
                    )
        while len(procs) < nproc and got + len(inflight) < n:
            spawn()

    try:
        while got < n:
            try:
                kind, idx, payload = rq.get(timeout=1.0)
            except Exception:
                if os.environ.get("VERIF_DEBUG_POOL"):
                    print("pool: got", got, "of", n, "inflight", inflight, "procs", [(p.pid, p.is_alive(), p.exitcode) for p in procs], file=sys.stderr, flush=True)
                reap(quiet=True)
                continue
            if kind == "start":
                inflight[idx] = payload
            elif kind == "done":
                inflight.pop(idx, None)
                results[idx] = payload
                got += 1
                if progress:
                    progress(got, n)
            elif kind == "error":
                raise MachineryError(f"task {idx} raised in worker:\n{payload}")
            elif kind == "initfail":
                raise MachineryError(f"worker init failed:\n{payload}")
            reap(quiet=False)
    finally:
        for _ in procs:
            tq.put(None)
        for p in procs:
            p.join(timeout=2)
            if p.is_alive():
                p.kill()
        # never let interpreter exit wait for queued tasks nobody will read (a failed run leaves some)
        tq.cancel_join_thread()
        rq.cancel_join_thread()
        tq.close()
        rq.close()
    return results


def chunks(seq, k):
    seq = list(seq)
    return [seq[i : i + k] for i in range(0, len(seq), k)]


def main_wrapper(fn):
    """Run a check entry point, mapping machinery failures to exit 2."""
    try:
        return fn()
    except MachineryError as e:
        print(f"MACHINERY-FAILURE: {e}", file=sys.stderr)
        return 2
    except Exception:
        traceback.print_exc()
        print("MACHINERY-FAILURE: unexpected exception in check", file=sys.stderr)
        return 2
